"""C16 — impedance models are well-formed, passive, correctly scaled and causal."""
import math
import os
import sys

import numpy as np

sys.path.insert(0, os.path.dirname(os.path.dirname(os.path.abspath(__file__))))
import lib  # noqa
import cases as C  # noqa
import corr  # noqa
from lib import f32, f2h, h2f  # noqa

MODULES = ["InovesaModel.Props.C16", "InovesaModel.Props.TieFactory", "InovesaModel.Props.TieImpedance", "InovesaModel.Props.TiePP"]
LEVEL = "proof"
C_LIGHT = 2.99792458e8


# first argument at which boost::math::airy_bi_prime (Boost 1.74, double, default policy) raises overflow_error: measured
# by bisection on the library in this sandbox ((2/3) u^1.5 = 709.19); assumed library behaviour of the model
BOOST_AIRY_BI_PRIME_OVERFLOW = 104.20871750754524


def airy_table(n, f0, fmax, g, limit=6000):
    """Airy values for the model of the parallel-plates table (the model evaluates the GENERATED scalar arithmetic itself;
    only Ai, Ai', Bi, Bi' come from here): per sample i = 1..n/2 `count`, then count x (Ai, Ai', Bi, Bi'), each value as a
    (hi, lo, exponent) triple of binary32 numbers, value = (hi + lo)·2^exponent; the list of a sample ends with a NaN entry at the first mode
    whose argument reaches the overflow threshold of boost's airy_bi_prime (there the implementation's library call throws,
    which ends the mode sum).  Returns None when the table
    would hold more than `limit` modes."""
    import scipy.special as sp
    import mpmath
    mpmath.mp.dps = 30
    f0, fmax = np.float32(f0), np.float32(fmax)
    delta = float(fmax / f0) / (n - 1.0)
    r_bend = C_LIGHT / (2 * math.pi * float(f0))
    g = float(np.float32(g))
    out = []
    total = 0
    for i in range(1, n // 2 + 1):
        nn = i * delta
        m = nn * (g / r_bend) ** 1.5
        maxp = int(2 * m * (r_bend / g) ** 1.5 * float(f0) * g / C_LIGHT) + 4      # a few more than the code can ask for
        b = m ** (-4.0 / 3.0)
        rows = []
        p = 1
        while p <= maxp:
            u = math.pi ** 2 * p * p / 2 ** (2.0 / 3.0) * b
            if u >= BOOST_AIRY_BI_PRIME_OVERFLOW:
                rows.append([float("nan")] * 4)      # boost::math::airy_bi_prime throws from here on: the catch ends the sum
                break
            if u < 100.0:
                vals = [float(v) for v in sp.airy(u)]
            else:                                    # scipy's Airy functions leave the double range at u = 103.28
                vals = [float(mpmath.airyai(u)), float(mpmath.airyai(u, derivative=1)),
                        float(mpmath.airybi(u)), float(mpmath.airybi(u, derivative=1))]
            rows.append(vals)
            p += 2
        total += len(rows)
        if total > limit:
            return None
        out.append(float(len(rows)))
        for r in rows:
            for v in r:
                # a double as (hi, lo, exponent): v = (hi + lo) * 2^exponent with |hi + lo| in [0.5, 1)
                if not math.isfinite(v):
                    out += [float("nan"), 0.0, 0.0]
                    continue
                mant, ex = math.frexp(v)
                hi = float(np.float32(mant))
                lo = float(np.float32(mant - hi))
                out += [hi, lo, float(ex)]
    return out


def imp_case(cid, model, n, extra):
    aux = ""
    if model == "pp":
        t = airy_table(n, extra[0], extra[1], extra[2])
        if t is not None:
            aux = "aux %s\n" % " ".join(f2h(x) for x in t)
    return "imp %s %s %d\nextra %s\n%srun\n" % (cid, model, n, " ".join(f2h(x) for x in extra), aux)


def table(lines):
    ints = [l for l in lines if l.startswith("ints")]
    vals = [l for l in lines if l.startswith("vals")]
    if not ints or not vals:
        return None, None
    t = vals[0].split()[1:]
    z = [complex(h2f(t[i]), h2f(t[i + 1])) for i in range(0, len(t), 2)]
    return [int(x) for x in ints[0].split()[1:]], z


def gen(rng, count):
    recs = []
    for k in range(count):
        model = ["const", "free", "wall", "pp", "coll", "factory"][k % 6]
        n = rng.choice([2, 3, 4, 5, 8, 15, 16, 31, 32, 64, 100, 127, 128])
        f0 = f32(rng.choice([9e6, 2.7e6, 1.2e6]))
        if model == "pp" and k % 12 == 3:
            f0 = f32(rng.choice([1.9e8, 9.5e7]))      # a small ring: bending radius c/(2 pi f0) of 0.25 m / 0.5 m
        fmax = f32(rng.choice([1e11, 4.5e11, 2e12]))
        gap = rng.choice([0.01, 0.032, 0.1])
        cid = "z%d" % k
        rec = dict(id=cid, model=model, n=n, f0=f0, fmax=fmax, gap=gap)
        if model == "const":
            ex = [fmax, f32(rng.uniform(0, 5)), f32(rng.uniform(-3, 3))]
        elif model == "free":
            ex = [f0, fmax]
        elif model == "wall":
            ex = [f0, fmax, f32(C_LIGHT / f0), f32(rng.choice([3.5e7, 1.4e6])), f32(rng.choice([0.0, -0.5, 1.0])), f32(gap / 2)]
        elif model == "pp":
            n = min(n, 64)
            while n > 4 and airy_table(n, f0, fmax, f32(gap)) is None:     # keep the Airy table of the model small
                n //= 2
            rec["n"] = n
            ex = [f0, fmax, f32(gap)]
        elif model == "coll":
            ex = [fmax, f32(gap / 2), f32(gap / 2 * rng.uniform(0.2, 0.9))]
        else:
            n = min(n, 32)
            rec["n"] = n
            # bending radius: the iso-magnetic value or an explicit one (--BendingRadius): the CSR terms scale with
            # c/(2 pi R), the wall with the revolution frequency
            R = C_LIGHT / (2 * math.pi * f0) * rng.choice([1.0, 1.0, 0.6, 1.7])
            sw = dict(gap=rng.choice([0.0, -1.0, 0.03]), use_csr=rng.choice([0, 1]), s=rng.choice([0.0, 3.5e7]),
                      xi=rng.choice([0.0, -2.0]), coll=rng.choice([0.0, 0.005, 0.5]))
            rec["sw"] = sw
            # an impedance file as a further (or the only) contribution: fewer, as many or more rows than samples
            rows = rng.choice([0, 0, max(1, n // 3), n, n + 5])
            sw["file_rows"] = rows
            ex = [fmax, f32(R), f0, f32(sw["gap"]), float(sw["use_csr"]), f32(sw["s"]), f32(sw["xi"]), f32(sw["coll"]), float(rows)]
            # the components the factory must sum (same constructor arguments as in makeImpedance)
            f0b = f32(C_LIGHT / (2 * math.pi * float(f32(R))))
            comps = []
            if sw["gap"] != 0:
                if sw["use_csr"]:
                    comps.append(("pp", [f0b, fmax, f32(sw["gap"])]) if sw["gap"] > 0 else ("free", [f0b, fmax]))
                if sw["s"] > 0 and sw["xi"] >= -1:
                    comps.append(("wall", [f0, fmax, f32(C_LIGHT / f0), f32(sw["s"]), f32(sw["xi"]), f32(abs(sw["gap"] / 2))]))
                if 0 < sw["coll"] < abs(sw["gap"] / 2):
                    comps.append(("coll", [fmax, f32(abs(sw["gap"] / 2)), f32(sw["coll"])]))
            rec["comps"] = comps
        rec["extra"] = ex
        rec["optext"] = imp_case(cid, model, rec["n"], ex)
        for j, (m, e) in enumerate(rec.get("comps", [])):
            rec["optext"] += imp_case("%s_c%d" % (cid, j), m, rec["n"], e)
        recs.append(rec)
    return recs


def one_sided(z, n):
    """energy of the response to a short Gaussian source (width ~ n/10 frequency samples) in the two
    tails, i.e. outside the source itself: samples m0..n/2-2 on one side, the mirror image on the other.
    (A bare impulse is useless here: the tables stop at the Nyquist frequency and the truncation rings
    equally on both sides.)  On the unchanged tree the dominant tail carries 4.3x .. 24x the other one."""
    k = np.arange(n // 2 + 1)
    w = np.fft.irfft(np.array(z[:n // 2 + 1]) * np.exp(-(k / (n / 10.0)) ** 2), n=n)
    m0 = 10
    a = float(np.sum(w[m0:n // 2 - 1] ** 2))
    b = float(np.sum(w[n // 2 + 2:n - m0 + 1] ** 2))
    return a, b


def oracle(rec, A):
    lines = A.get(rec["id"], [])
    n, model = rec["n"], rec["model"]
    if any(l.startswith("txt none") for l in lines):
        if model == "factory" and not rec["comps"] and not rec["sw"].get("file_rows"):
            return None
        return "factory returned no impedance although %r is selected" % (rec.get("comps"),)
    ints, z = table(lines)
    if z is None:
        return "no table"
    if model == "factory" and not rec["comps"] and not rec["sw"].get("file_rows"):
        return "factory returned an impedance although nothing is selected (%r)" % rec["sw"]
    if ints != [n, n] or len(z) != n:
        return "%s: %s samples returned, %d requested" % (model, ints, n)
    for i, v in enumerate(z):
        if not (math.isfinite(v.real) and math.isfinite(v.imag)):
            if n >= 2:
                return "%s (n=%d): sample %d is not finite (%r)" % (model, n, i, v)
        if v.real < 0:
            return "%s (n=%d): sample %d has negative real part %r" % (model, n, i, v.real)
        upper = i >= n // 2 if model in ("const", "coll") else i > n // 2
        if model == "factory" and rec["sw"].get("file_rows"):
            upper = False       # a table read from a file is user data: it may fill every sample it has rows for
        if upper and (v.real != 0 or v.imag != 0):
            return "%s (n=%d): sample %d above half the length is %r, not zero" % (model, n, i, v)
    if model == "free" and n >= 8:
        for i, j in ((1, 2), (2, n // 2)):
            want = (j / i) ** (1 / 3)
            got = z[j].real / z[i].real
            if abs(got - want) > 1e-4 * want:
                return "free space: Z[%d]/Z[%d] = %r, cube-root law gives %r" % (j, i, got, want)
        if abs(z[1].imag / z[1].real - math.tan(math.pi / 6)) > 2e-3:
            return "free space: phase is not pi/6"
    if model == "wall" and n >= 8:
        for i, j in ((1, 4), (2, n // 2)):
            want = math.sqrt(j / i)
            if abs(z[j].real / z[i].real - want) > 1e-4 * want:
                return "resistive wall: Z[%d]/Z[%d] is not the square-root law" % (j, i)
        if any(abs(v.imag + v.real) > 1e-6 * abs(v.real) for v in z[1:n // 2 + 1]):
            return "resistive wall: phase is not -pi/4"
        # absolute scale: Re Z(f) = (L / (2 pi b)) * sqrt(pi f mu_r mu0 / sigma) = sqrt(Z0 mu_r f/(sigma pi c)) * L/(2b)
        f0w, fmaxw, L, sig, xi, b = [float(x) for x in rec["extra"]]
        if 1 + xi > 0:
            delta = fmaxw / f0w / (n - 1.0)
            want = math.sqrt(376.730313461 * (1 + xi) * f0w / sig / math.pi / C_LIGHT) * L / 2 / b * math.sqrt(1 * delta)
            if abs(z[1].real - want) > 1e-4 * want:
                return ("resistive wall (susceptibility %g): Re Z at the first sample is %r, the skin-effect formula "
                        "sqrt(Z0 mu_r f/(sigma pi c)) L/(2b) gives %r" % (xi, z[1].real, want))
    if model == "coll":
        if any(v != z[0] for v in z[:n // 2]) or z[0].real <= 0 or z[0].imag != 0:
            return "collimator is not a positive constant resistance"
    if model in ("free", "wall") and n >= 64:
        a, b = one_sided(z, n)
        big, small = max(a, b), min(a, b)
        if big < 2.5 * small:
            return "%s: impulse response not one-sided (energy split %.3g / %.3g)" % (model, a, b)
        rec["side"] = "low" if a > b else "high"
    if model == "pp" and n >= 32:
        # tends to free space at high frequencies: compare the top samples with Z0*(i*delta)^(1/3)
        delta = float(rec["fmax"]) / float(rec["f0"]) / (n - 1)
        i = n // 2
        fs = complex(306.3, 176.9) * (i * delta) ** (1 / 3)
        cutoff_n = math.sqrt(2 * math.pi ** 3 / 3) * (C_LIGHT / (2 * math.pi * rec["f0"]) / rec["gap"]) ** 1.5
        if i * delta > 30 * cutoff_n and abs(z[i] - fs) > 0.25 * abs(fs):
            return "parallel plates: sample %d (far above the shielding cutoff) is %r, free space gives %r" % (i, z[i], fs)
        if 1 * delta < 0.2 * cutoff_n and abs(z[1]) > 0.05 * abs(complex(306.3, 176.9) * delta ** (1 / 3)):
            return "parallel plates: sample 1 (well below the shielding cutoff) is not suppressed: %r" % z[1]
    if model == "factory":
        tot = [complex(0, 0)] * n
        mag = [0.0] * n
        for i in range(min(n, rec["sw"].get("file_rows", 0))):
            tot[i] += complex(1.0 + 0.25 * i, -0.5 * i)
            mag[i] += abs(tot[i])
        for j in range(len(rec["comps"])):
            _, zc = table(A.get("%s_c%d" % (rec["id"], j), []))
            if zc is None or len(zc) != n:
                return "component table missing"
            tot = [complex(f32(a.real + b.real), f32(a.imag + b.imag)) for a, b in zip(tot, zc)]
            mag = [m + abs(b) for m, b in zip(mag, zc)]
        for i in range(n):
            # (the factory derives the wall's length and radius from its own arguments in double precision;
            #  the separately built component gets them rounded to binary32: allow a few ulp)
            if abs(z[i] - tot[i]) > 4e-6 * (abs(z[i]) + mag[i]) and not (math.isnan(z[i].real) and math.isnan(tot[i].real)):
                return ("factory (switches %r): sample %d is %r, the sum of the selected contributions %r is %r"
                        % (rec["sw"], i, z[i], [m for m, _ in rec["comps"]], tot[i]))
    return None


def explore(chk, harness, count, tag):
    rng = lib.Rng(chk.seed, "C16/" + tag)
    recs = gen(rng, count)
    optexts = {r["id"]: r["optext"] for r in recs}
    A, B, mism, drift, san = corr.run_correspondence(chk, harness, optexts, tag)
    mism = [(c, d) for c, d in mism if not any(l.startswith("skip") for l in B.get(c, []))]
    fails = [(r, f) for r in recs for f in [oracle(r, A)] if f]
    sides = {r["model"]: r.get("side") for r in recs if r.get("side")}
    if len(sides) == 2 and sides.get("free") == sides.get("wall"):
        fails.append((recs[0], "free-space CSR and resistive wall act on the same side of the source charge"))
    return recs, optexts, mism, drift, san, fails


def run(chk):
    ok, det = lib.prove(chk, MODULES, min_examples=1)
    harness = lib.build_harness()
    quick = chk.tier == "quick"
    count = 72 if quick else 1500
    recs, optexts, mism, drift, san, fails = explore(chk, harness, count, "main")
    chk.cov["evaluations"] = len(recs)
    chk.cov["distinct_nontrivial"] = len({r["optext"] for r in recs})
    chk.cov["rule"] = ("every model and the factory for sample counts 2..128 (even, odd, small), three revolution "
                       "frequencies, three frequency ranges, gaps, conductivities, susceptibilities, collimator radii and "
                       "all combinations of factory switches; tables compared bitwise with the Lean model (const, free, "
                       "wall, collimator), factory compared with the sum of its separately built components")
    d = {}
    for r in recs:
        d["model=" + r["model"]] = d.get("model=" + r["model"], 0) + 1
        d["n=%d" % r["n"]] = d.get("n=%d" % r["n"], 0) + 1
    chk.cov["distribution"] = d
    chk.cov["correspondence"] = {"cases": len(recs), "mismatches": len(mism), "bitwise_drift": drift}
    chk.cov["samples"] = [{"case": recs[1]["optext"][:200]},
                          {"theorem": "Inovesa.Props.C16: *_zero_upper_half, *_re_nonneg, wall_phase, free_scaling, free_phase_is_pi_over_six, factory_none_iff, factory_selection, add_re_nonneg"}]
    chk.assumptions += [
        "library functions (pow, sqrt, log, Airy) are parameters with the sign hypotheses used; Airy asymptotics (parallel plates -> free space / suppression below cutoff) and one-sidedness of the truncated spectra are measured, not proved",
        "n <= 1 (division by n-1) is outside the domain: the code is run there by C17's fuzzing",
    ]
    if san:
        chk.violation("sanitizer/abort in the implementation: " + san[:300],
                      "# harness aborted\n" + san + "\n" + "".join(optexts.values())[:100000], tag="sanitizer")
    for r, f in fails[:1]:
        chk.violation("C16 violated: " + f, "# C16 oracle failure: %s\n%s" % (f, r["optext"]), tag="oracle_" + r["id"])
    broken = []
    if not ok:
        broken.append("proof obligation: " + str(det.get("broken"))[:1500])
    if mism:
        broken.append("correspondence (model vs implementation): case %s: %s" % mism[0])
    if broken and not fails and not san:
        recs2, opt2, mism2, drift2, san2, fails2 = explore(chk, harness, 600, "search")
        chk.cov["search"] = {"cases": len(recs2), "oracle_failures": len(fails2)}
        if fails2:
            r, f = fails2[0]
            chk.violation("C16 violated: %s; broken: %s" % (f, broken[0][:300]),
                          "# C16 oracle failure found by search: %s\n%s" % (f, r["optext"]), tag="search_" + r["id"])
        else:
            txt = "# C16 no longer shown; no failing input found by the search\n# %s\n" % (
                "\n# ".join(b.replace("\n", "\n# ") for b in broken))
            if mism and mism[0][0] in optexts:
                txt += "# first differing correspondence case follows\n" + optexts[mism[0][0]]
            chk.violation("C16 no longer shown: " + broken[0][:400], txt, tag="unproved", found_input=False)


def replay(chk, path):
    harness = lib.build_harness()
    with open(path) as f:
        txt = f.read()
    a, b, rc, err, rc2, err2 = C.run_both(harness, txt, "replay")
    print("\n".join(l[:200] for l in a[:40]))
    chk.cov["evaluations"] = len(C.split_cases(a))
