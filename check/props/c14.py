"""C14 — Ctrl+C at any moment leaves a complete, consistent results file."""
import os
import shutil
import sys

sys.path.insert(0, os.path.dirname(os.path.dirname(os.path.abspath(__file__))))
import lib  # noqa
import prog  # noqa
import progcommon as P  # noqa

MODULES = ["InovesaModel.Props.C14", "InovesaModel.Props.TieH5"]
LEVEL = "proof"


def run_at(exe, h5, cfg, p, p2=None):
    d = prog.scratch()
    try:
        r = prog.run_inovesa(exe, P.args_of(cfg), d, sigint_at=p, sigint_at2=p2, trace=True)
        D = prog.dump(h5, os.path.join(d, "a.h5")) if os.path.exists(os.path.join(d, "a.h5")) else None
        return r, D
    finally:
        shutil.rmtree(d, ignore_errors=True)


def recs(D, name, axis="/Info/AxisValues_t"):
    ds = D["dsets"].get(name)
    if not ds or not ds[2] or ds[2][0] == 0:
        return []
    nrec = ds[2][0]
    per = len(ds[3]) // nrec if nrec else 0
    return [ds[3][i * per:(i + 1) * per] for i in range(nrec)]


def check_point(cfg, p, p2, r, D, Dfull, sched):
    if r.rc != 0:
        return "exit status %d after SIGINT at interrupt point %d" % (r.rc, p)
    # every interrupt point lies before the closing message: the run must be reported as aborted wherever the signal
    # arrived, also during the last step and after the loop has been left
    if "Aborted." not in r.out:
        return "not reported as aborted after SIGINT at point %d (%s): the log ends with %r" % (
            p, r.trace[p] if p < len(r.trace) else "?", r.out.strip().split("\n")[-1][-60:])
    if D is None or not D.get("ok"):
        return "results file missing or unreadable after SIGINT at point %d" % p
    sk = P.skeleton_check(cfg, D, sched)
    if sk:
        return "SIGINT at point %d (%s): %s" % (p, r.trace[p] if p < len(r.trace) else "?", sk)
    # every record except the final one equals the corresponding record of the uninterrupted run
    for name in P.TIME_INDEXED + ["/WakePotential/data", "/Info/AxisValues_t"]:
        a, b = recs(D, name), recs(Dfull, name)
        if not a:
            continue
        for i in range(len(a) - 1):
            if i >= len(b) or a[i] != b[i]:
                return "SIGINT at point %d: record %d of %s differs from the uninterrupted run" % (p, i, name)
    a, b = recs(D, "/PhaseSpace/data"), recs(Dfull, "/PhaseSpace/data")
    ta = D["dsets"]["/PhaseSpace/axis0"][3]
    tb = Dfull["dsets"]["/PhaseSpace/axis0"][3]
    for i in range(len(a) - 1):
        if ta[i] in tb and a[i] != b[tb.index(ta[i])]:
            return "SIGINT at point %d: phase-space record %d differs from the uninterrupted run" % (p, i)
    return None


def explore(chk, exe, h5, nconf, npoints, tag, all_points=False):
    rng = lib.Rng(chk.seed, "C14/" + tag)
    fails, mism, evals, cfgs, total_points = [], [], 0, [], 0
    for ci in range(nconf):
        cfg = P.gen_config(rng, True, allow_rfmod=True)
        if ci % 2 == 1 and not cfg.get("rfmod"):
            cfg["rfmod"] = [0.5, 45000.0, ci // 2 % 2]      # dynamic RF map: one /RFKicks row per executed step
        cfg["T"] = rng.choice([0.25, 0.5])
        cfg["N"] = rng.choice([16, 20])
        if cfg["outstep"] in (0, 100):
            cfg["outstep"] = rng.choice([1, 2, 3])
        cfgs.append(cfg)
        r0, Dfull = run_at(exe, h5, cfg, None)
        evals += 1
        if r0.rc != 0 or Dfull is None:
            fails.append((cfg, None, "uninterrupted run failed: %d %s" % (r0.rc, r0.err[-200:])))
            continue
        M = len(r0.trace)
        s0 = P.model_schedule(cfg)
        if s0["markers"] + 1 != M:
            mism.append((cfg, None, "uninterrupted run passes %d interrupt points, model %d" % (M, s0["markers"] + 1)))
        total_points += M
        pts = list(range(M)) if all_points else sorted(set([0, 3, 7, 8, 9, 10, 11, M - 1, M - 2, M - 8] +
                                                           [rng.randrange(M) for _ in range(npoints)]))
        pts = [p for p in pts if 0 <= p < M]
        for p in pts:
            p2 = rng.choice([None, None, rng.randrange(M)])
            r, D = run_at(exe, h5, cfg, p, p2)
            evals += 1
            eff = p if p2 is None else min(p, p2)
            sched = P.model_schedule(cfg, sig=eff)
            f = check_point(cfg, p, p2, r, D, Dfull, sched)
            if f:
                fails.append((cfg, (p, p2), f))
    return cfgs, evals, total_points, mism, fails


def replay_text(cfg, pt, what):
    env = "" if pt is None else "INOVESA_VERIF_SIGINT_AT=%s%s " % (pt[0], (" INOVESA_VERIF_SIGINT_AT2=%s" % pt[1]) if pt[1] is not None else "")
    return "# C14: %s\n# configuration: %r\n# command: %sinovesa-verif %s\n" % (what, cfg, env, " ".join(P.args_of(cfg)))


def run(chk):
    ok, det = lib.prove(chk, MODULES, min_examples=1)
    exe = lib.build_inovesa("plain")
    h5 = lib.build_h5dump()
    quick = chk.tier == "quick"
    if quick:
        cfgs, evals, tot, mism, fails = explore(chk, exe, h5, 2, 20, "main")
    else:
        cfgs, evals, tot, mism, fails = explore(chk, exe, h5, 3, 0, "main", all_points=True)
        chk.cov["exhaustive"] = True
    chk.cov["evaluations"] = evals
    chk.cov["distinct_nontrivial"] = evals
    chk.cov["interrupt_points_in_runs"] = tot
    chk.cov["rule"] = ("SIGINT raised by hook H1 at numbered interrupt points (set-up, loop head, between map applications, "
                       "inside the output block, final block) of short runs; quick: sampled points incl. all set-up points, "
                       "thorough: every point of three configurations; a third of the runs get a second signal; exit "
                       "status, message, file skeleton (vs Lean model with the same signal) and all records but the last "
                       "(vs uninterrupted run, bit-wise)")
    chk.cov["samples"] = [{"config": cfgs[0]},
                          {"theorem": "Inovesa.Props.C14.interrupt_is_truncation: for EVERY interrupt point p, runMain (some p) = runFor k for some k <= laststep; records_prefix; final_block_one_record"}]
    chk.assumptions += [
        "granularity: statement boundaries of main (hook points); a signal inside a statement has the same effect as at the next boundary because the handler only stores to Display::abort and the loop condition is its only reader (handler code inspected, not modelled)",
        "asynchronous delivery inside HDF5 library calls is covered by that argument only",
    ]
    for cfg, pt, f in fails[:1]:
        chk.violation("C14 violated: " + f, replay_text(cfg, pt, f), tag="oracle")
    broken = []
    if not ok:
        broken.append("proof obligation: " + str(det.get("broken"))[:1500])
    if mism:
        broken.append("correspondence: %s [config %r]" % (mism[0][2], mism[0][0]))
    if broken and not fails:
        cfgs2, evals2, tot2, mism2, fails2 = explore(chk, exe, h5, 3, 40, "search")
        chk.cov["search"] = {"cases": evals2, "oracle_failures": len(fails2)}
        if fails2:
            cfg, pt, f = fails2[0]
            chk.violation("C14 violated: %s; broken: %s" % (f, broken[0][:300]), replay_text(cfg, pt, f), tag="search")
        else:
            chk.violation("C14 no longer shown: " + broken[0][:400],
                          "# C14 no longer shown; no failing input found by the search\n# %s\n" % (
                              "\n# ".join(b.replace("\n", "\n# ") for b in broken)), tag="unproved", found_input=False)


def replay(chk, path):
    print(open(path).read())
