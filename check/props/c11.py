"""C11 — continuing from a results file equals never having stopped."""
import os
import shutil
import sys

import numpy as np

sys.path.insert(0, os.path.dirname(os.path.dirname(os.path.abspath(__file__))))
import lib  # noqa
import prog  # noqa
import progcommon as P  # noqa
from lib import h2f  # noqa

MODULES = ["InovesaModel.Props.C11", "InovesaModel.Props.TiePhysics", "InovesaModel.Props.TiePS", "InovesaModel.Props.TieH5Read"]
LEVEL = "proof"


def last_ps(D, idx=-1):
    ds = D["dsets"]["/PhaseSpace/data"]
    nrec = ds[2][0]
    per = len(ds[3]) // nrec
    i = idx % nrec
    return ds[3][i * per:(i + 1) * per]


def case(exe, h5, cfg, T1, T2, renorm, use_step=None, nrec_leg1=None):
    d = prog.scratch()
    try:
        c1 = dict(cfg, T=T1, renorm=renorm)
        r1 = prog.run_inovesa(exe, P.args_of(c1, out="leg1.h5"), d)
        if r1.rc != 0:
            return "leg 1 failed: %s" % r1.err[-200:], None
        D1 = prog.dump(h5, os.path.join(d, "leg1.h5"))
        extra = ["-i", "leg1.h5"]
        if use_step is not None:
            extra += ["--InitialDistStep", str(use_step)]
        c2 = dict(cfg, T=T2, renorm=renorm)
        r2 = prog.run_inovesa(exe, P.args_of(c2, out="leg2.h5", extra=extra), d)
        if r2.rc != 0 or not os.path.exists(os.path.join(d, "leg2.h5")):
            return "leg 2 failed (status %d): %s" % (r2.rc, (r2.err or r2.out)[-300:]), None
        D2 = prog.dump(h5, os.path.join(d, "leg2.h5"))
        # leg 2 loads exactly the stored values (first phase-space record of leg 2, written before any step)
        nrec1 = D1["dsets"]["/PhaseSpace/data"][2][0]
        want = last_ps(D1, -1 if use_step is None else use_step)
        got = last_ps(D2, 0)
        info = dict(nrec1=nrec1)
        if renorm < 0:
            if got != want:
                k = next(i for i in range(len(want)) if got[i] != want[i])
                return ("the continued run does not start from the stored values: cell %d stored %s (%g), loaded %s (%g)"
                        % (k, want[k], h2f(want[k]), got[k], h2f(got[k]))), info
        else:
            # the loaded grid is normalised at start-up: it must be the stored one times ONE factor, and that factor must be
            # what restores the charge of the stored record (known finding renorm-seam covers the factor itself)
            a, b = np.array([h2f(x) for x in got]), np.array([h2f(x) for x in want])
            s = float(np.max(np.abs(b))) + 1e-30
            r = float(a.sum() / b.sum()) if b.sum() else 1.0
            if not np.all(np.abs(a - r * b) <= 2e-6 * s):
                return "the continued run starts from values that are not the stored ones up to one normalisation factor", info
            recs1 = D1["dsets"]["/PhaseSpace/data"][2][0]
            pops1 = prog.fvals(D1["dsets"]["/BunchPopulation/data"])
            dmax = max(abs(1.0 - x) for x in pops1) if pops1 else 0.0
            if abs(r - 1.0) > 1.5 * dmax + 2e-6:
                return ("the continued run starts from the stored values times %.6f, the records of the first leg never deviate "
                        "from unit charge by more than %.3g" % (r, dmax)), info
        if use_step is None:
            cs = dict(cfg, T=T1 + T2, renorm=renorm)
            rs = prog.run_inovesa(exe, P.args_of(cs, out="single.h5"), d)
            if rs.rc != 0:
                return "single run failed", info
            Ds = prog.dump(h5, os.path.join(d, "single.h5"))
            fa, fb = last_ps(D2), last_ps(Ds)
            if renorm < 0:
                if fa != fb:
                    a, b = np.array([h2f(x) for x in fa]), np.array([h2f(x) for x in fb])
                    rel = float(np.max(np.abs(a - b))) / (float(np.max(np.abs(b))) + 1e-30)
                    return ("final phase space of leg1(T=%g)+leg2(T=%g) differs from the uninterrupted run over T=%g "
                            "(max relative difference %.3g; bit-identical expected without renormalisation)"
                            % (T1, T2, T1 + T2, rel)), info
            else:
                a, b = np.array([h2f(x) for x in fa]), np.array([h2f(x) for x in fb])
                rel = float(np.max(np.abs(a - b))) / (float(np.max(np.abs(b))) + 1e-30)
                info["rel"] = rel
                # KNOWN FINDING renorm-seam: with RenormalizeCharge >= 0 the continued run normalises the loaded grid
                # at start-up, before the first wake is computed; the uninterrupted run does not (or does it after the
                # wake).  The legs then differ by an amount set by the charge deficit of the stored record.
                # The step counter (and with it the renormalisation schedule `step % RenormalizeCharge == 0`) restarts at 0,
                # so the legs are renormalised at different moments; in between the charge drifts.  What the finding
                # explains is bounded by the largest charge deficit seen in any record of the three runs.
                deficit = 0.0
                for Dx in (D1, D2, Ds):
                    pops = prog.fvals(Dx["dsets"]["/BunchPopulation/data"])
                    deficit = max([deficit] + [abs(1.0 - x) for x in pops])
                info["deficit"] = deficit
                # RenormalizeCharge = 0: nothing is renormalised after a start from a file (see the finding): rounding level only
                if rel > (2e-6 if renorm == 0 else 1.5 * deficit + 2e-5):
                    return ("final phase space of the continued run differs from the uninterrupted run by %.3g; the "
                            "renormalisation (largest charge deficit %.3g in any record) does not explain it"
                            % (rel, deficit)), info
                if rel > 3e-6:
                    info["known"] = "renorm-seam"
        return None, info
    finally:
        shutil.rmtree(d, ignore_errors=True)


def refusal_cases(exe, h5):
    """unusable start files must be refused with a message and nothing must be simulated"""
    fails = []
    d = prog.scratch()
    try:
        base = dict(n=16, N=16, T=0.25, outstep=2, h5save=1, cur=[0.001], imp="none", renorm=-1, shx=0, shy=0,
                    pad=2, it=4, dt=4)
        # multi-bunch file
        mb = dict(base, cur=[0.001, 0.001])
        r = prog.run_inovesa(exe, P.args_of(mb, out="mb.h5"), d)
        with open(os.path.join(d, "garbage.h5"), "wb") as f:
            f.write(b"this is not an hdf5 file\n" * 10)
        open(os.path.join(d, "empty.h5"), "wb").close()
        # legal HDF5 files that hold no usable phase-space record (harness/h5make)
        import subprocess
        odd = [("empty3", "HDF5 file whose phase-space data set holds no record"), ("empty4", "HDF5 file (rank 4) without a record"),
               ("scalar", "HDF5 file with a scalar phase-space data set"), ("rank2", "HDF5 file with a rank-2 phase-space data set"),
               ("nodata", "HDF5 file without a phase-space data set"), ("multibunch", "HDF5 file with a two-bunch record")]
        for kind, _ in odd:
            subprocess.run([lib.build_h5make(), os.path.join(d, "odd_%s.h5" % kind), kind, "16"], check=True)
        for name, why in [("missing.h5", "missing file"), ("garbage.h5", "not an HDF5 file"), ("empty.h5", "empty file"),
                          ("mb.h5", "multi-bunch results file")] + [("odd_%s.h5" % k, w) for k, w in odd]:
            r = prog.run_inovesa(exe, P.args_of(base, out="out_%s" % name, extra=["-i", name]), d)
            simulated = os.path.exists(os.path.join(d, "out_%s" % name)) or "Starting the simulation" in r.out
            said = ("rror" in r.err) or ("rror" in r.out) or ("not" in r.err.lower())
            if r.rc not in (0, 1) or simulated:
                fails.append("%s as start distribution: status %d, simulated=%s (must be refused)" % (why, r.rc, simulated))
            elif not said and not r.err.strip():
                fails.append("%s as start distribution: refused silently (no message)" % why)
    finally:
        shutil.rmtree(d, ignore_errors=True)
    return fails


def explore(chk, exe, h5, count, tag):
    rng = lib.Rng(chk.seed, "C11/" + tag)
    fails, evals, cfgs, rels = [], 0, [], []
    for k in range(count):
        cfg = P.gen_config(rng, True, nbmax=1, allow_renorm=False)
        cfg["N"] = rng.choice([16, 20, 32])
        cfg["outstep"] = rng.choice([1, 2, 3])
        cfg["h5save"] = rng.choice([1, 2])
        T1, T2 = rng.choice([0.25, 0.5, 0.75]), rng.choice([0.25, 0.5])
        renorm = rng.choice([-1, -1, 0, 4])
        use_step = None if k % 3 else rng.choice([0, 1, -1, -2])
        cfgs.append(dict(cfg, T1=T1, T2=T2, renorm=renorm, use_step=use_step))
        f, info = case(exe, h5, cfg, T1, T2, renorm, use_step)
        evals += 1
        if info and "rel" in info:
            rels.append((round(info["rel"], 8), round(info.get("deficit", 0.0), 8)))
        if info and info.get("known"):
            chk.violation("C11: continued run differs from the uninterrupted one by %.3g with RenormalizeCharge=%d" % (info["rel"], renorm),
                          replay_text(cfgs[-1], "known finding renorm-seam"), tag="known", key="renorm-seam")
        if f:
            fails.append((cfgs[-1], f))
    return cfgs, evals, fails, rels


def seam_witness():
    """known finding renorm-seam: coarse grid with free-space CSR (2% charge deficit at the seam), RenormalizeCharge 4"""
    return dict(n=24, N=32, T=0.25, outstep=1, h5save=1, cur=[0.002], imp="free", renorm=4, shx=0, shy=0, pad=2, it=2, dt=4), 0.75, 0.5


def reader_cases(chk, count, tag):
    """the real HDF5File::readPhaseSpace in-process on files whose record r holds the value r+1, against the model
    `readStart`: which record is loaded for which StartDistStep, which files are refused"""
    import corr
    harness = lib.build_harness()
    rng = lib.Rng(chk.seed, "C11/reader/" + tag)
    recs = []
    for k in range(count):
        rank = rng.choice([3, 3, 3, 3, 4, 4, 4, 2, 5, 0])
        nrec = rng.choice([0, 1, 2, 3, 5, 7])
        nb = rng.choice([1, 1, 2, 3]) if rank in (4, 5) else 1
        n = rng.choice([4, 6, 8])
        step = rng.choice([-1, -1, 0, nrec - 1, -nrec, rng.randint(-nrec - 4, nrec + 4), rng.randint(-nrec - 4, nrec + 4)])
        cid = "r%d" % k
        recs.append(dict(id=cid, rank=rank, nrec=nrec, nb=nb, n=n, step=step,
                         optext="h5read %s %d %d %d %d %d\nrun\n" % (cid, rank, nrec, nb, n, step)))
    optexts = {r["id"]: r["optext"] for r in recs}
    A, B, mism, drift, san = corr.run_correspondence(chk, harness, optexts, "reader_" + tag)
    fails = []
    for r in recs:
        la = [l for l in A.get(r["id"], []) if l.split()[0] in ("txt", "ints")]
        usable = r["rank"] in (3, 4) and r["nrec"] > 0 and r["nb"] == 1
        what = "start file of rank %d with %d records of %d bunch(es), StartDistStep %d" % (r["rank"], r["nrec"], r["nb"], r["step"])
        if not la:
            fails.append((r, what + ": no answer from the reader"))
        elif not usable:
            if la[0] != "txt refused":
                fails.append((r, what + ": not refused (%s)" % la[0]))
        else:
            t = la[0].split()
            if t[0] != "ints":
                fails.append((r, what + ": refused although it is a usable single-bunch file"))
                continue
            g, lo, hi = int(t[1]), int(t[2]), int(t[3])
            if g != r["n"] or lo != hi:
                fails.append((r, what + ": loaded grid size %d, values of records %d..%d (one record of size %d expected)" % (g, lo, hi, r["n"])))
            elif 0 <= r["step"] < r["nrec"] and lo != r["step"]:
                fails.append((r, what + ": loaded record %d" % lo))
            elif -r["nrec"] <= r["step"] < 0 and lo != r["nrec"] + r["step"]:
                fails.append((r, what + ": loaded record %d (negative steps count from the end)" % lo))
            elif not 0 <= lo < r["nrec"]:
                fails.append((r, what + ": loaded record %d does not exist" % lo))
    return recs, optexts, mism, san, fails


def replay_text(cfg, what):
    return "# C11: %s\n# configuration (leg lengths T1, T2, renormalisation, chosen start record): %r\n" % (what, cfg)


def run(chk):
    ok, det = lib.prove(chk, MODULES, min_examples=0)
    exe = lib.build_inovesa("plain")
    h5 = lib.build_h5dump()
    quick = chk.tier == "quick"
    count = 6 if quick else 90
    cfgs, evals, fails, rels = explore(chk, exe, h5, count, "main")
    wcfg, wT1, wT2 = seam_witness()
    wf, winfo = case(exe, h5, wcfg, wT1, wT2, 4, None)
    if winfo and winfo.get("known"):
        chk.violation("C11: renorm-seam witness", replay_text(dict(wcfg, T1=wT1, T2=wT2), "known finding renorm-seam"),
                      tag="known", key="renorm-seam")
    if wf:
        fails.append((dict(wcfg, T1=wT1, T2=wT2), wf))
    ref = refusal_cases(exe, h5)
    rrecs, ropt, rmism, rsan, rfails = reader_cases(chk, 60 if quick else 1500, "main")
    chk.cov["reader"] = {"cases": len(rrecs), "mismatches": len(rmism), "oracle_failures": len(rfails),
                         "usable": sum(1 for r in rrecs if r["rank"] in (3, 4) and r["nrec"] > 0 and r["nb"] == 1),
                         "no_record": sum(1 for r in rrecs if r["nrec"] == 0), "multi_bunch": sum(1 for r in rrecs if r["nb"] > 1),
                         "other_rank": sum(1 for r in rrecs if r["rank"] not in (3, 4))}
    if rsan:
        chk.violation("sanitizer/abort in the start-file reader: " + rsan[:300], "# harness aborted\n" + rsan + "\n" + "".join(ropt.values()),
                      tag="reader_sanitizer")
    for r, f in rfails[:1]:
        chk.violation("C11 violated: " + f, "# C11 start-file reader: %s\n%s" % (f, r["optext"]), tag="reader_" + r["id"])
    if rmism and not rfails and not rsan:
        ok = False
        det["broken"] = "correspondence of the start-file reader (model readStart vs HDF5File::readPhaseSpace): case %s: %s" % rmism[0]
    chk.cov["evaluations"] = evals + 4
    chk.cov["distinct_nontrivial"] = len({repr(c) for c in cfgs}) + 4
    chk.cov["rule"] = ("leg1(T1) -> leg2(T2) started from leg1's results file vs one run over T1+T2 (single bunch, random "
                       "grid/impedance/cadences/split points, RenormalizeCharge in {-1,0,4}, every third case a chosen "
                       "start record incl. negative indices); bit-wise for RenormalizeCharge<0; ten unusable start files (missing, not HDF5, empty, multi-bunch, no record, scalar, rank 2, no data set)")
    chk.cov["renormalised_restart_relative_differences"] = rels[:20]
    chk.cov["samples"] = [{"config": cfgs[0]},
                          {"theorem": "Inovesa.Props.C11.split_run (RenormalizeCharge<0): grid after a+b steps = grid after b steps started from the stored grid of an a-step run; last_record_is_final_state; split_run_full_false (with renormalisation the statement is false of the code)"}]
    chk.assumptions += [
        "HDF5: reading a hyperslab of IEEE_F32LE returns the stored bit patterns (library assumption, tested bit-wise)",
        "with RenormalizeCharge >= 0 the full statement is false of the code (Lean: split_run_full_false; known finding renorm-seam): the legs may differ by at most 0.3 x the charge deficit of the stored record + 2e-5, anything larger is reported",
    ]
    for cfg, f in fails[:1]:
        chk.violation("C11 violated: " + f, replay_text(cfg, f), tag="oracle")
    for f in ref[:1]:
        chk.violation("C11 violated: " + f, "# C11 refusal of unusable start files: %s\n" % f, tag="refusal")
    if not ok and not fails and not ref and not rfails:
        cfgs2, evals2, fails2, _ = explore(chk, exe, h5, 20, "search")
        chk.cov["search"] = {"cases": evals2, "oracle_failures": len(fails2)}
        if fails2:
            cfg, f = fails2[0]
            chk.violation("C11 violated: %s; broken proof: %s" % (f, str(det.get("broken"))[:300]), replay_text(cfg, f), tag="search")
        else:
            chk.violation("C11 no longer shown: proof obligation: " + str(det.get("broken"))[:400],
                          "# C11 no longer shown; no failing input found by the search\n# %s\n"
                          % str(det.get("broken")).replace("\n", "\n# "), tag="unproved", found_input=False)


def replay(chk, path):
    print(open(path).read())
