"""C08 — in a multi-bunch run every bunch evolves exactly as it would on its own."""
import math
import os
import sys

sys.path.insert(0, os.path.dirname(os.path.dirname(os.path.abspath(__file__))))
import lib  # noqa
import cases as C  # noqa
import corr  # noqa
import kickcommon as K  # noqa
from lib import f32, f2h, h2f  # noqa

MODULES = ["InovesaModel.Props.C08", "InovesaModel.Props.Whole", "InovesaModel.Props.TieKick", "InovesaModel.Props.TieWake", "InovesaModel.Props.TieFPApply"]
LEVEL = "proof"


def ex(vals):
    return " ".join(f2h(x) for x in vals)


def gen(rng, count, sizes):
    """groups: (multi-bunch case, [single-bunch cases]) for kick / rf / drift / fp"""
    groups = []
    for k in range(count):
        kind = ["kick", "kick", "rf", "drift", "fp", "ident", "dynrf"][k % 7]
        n = rng.choice(sizes)
        nb = rng.choice([2, 3, 5]) if n <= 17 else rng.choice([2, 3])
        it = rng.choice([1, 2, 3, 4])
        same = rng.random() < 0.3
        one = C.data_family(rng, n, 1, rng.choice(["gauss", "noise", "impulse"]), rng.choice([0, 3]))
        if same:
            data = one * nb
        else:
            data = C.data_family(rng, n, nb, rng.choice(["gauss", "noise", "impulse"]), rng.choice([0, 3]))
        gid = "g%d" % k
        singles = []
        shx, shy = rng.uniform(-2, 2), rng.uniform(-2, 2)
        box = [f32(-6 + shx), f32(6 + shx), f32(-6 + shy), f32(6 + shy), f32(1.2e-3), f32(6.11e5)]
        if kind == "kick":
            axis = rng.choice("xy")
            off = C.offset_family(rng, n, nb, rng.choice(["frac", "affine", "smooth", "wholerow", "mixed"]),
                                  rng.choice([0.9, 2.5]))
            if same and axis == "y":
                off = off[0:n] * nb   # identical bunches need identical displacement fields too
            cl = 1 if k % 2 == 1 else 0       # with and without the interpolation-clamp switch
            multi = C.kick_case(gid, axis, n, it, nb, -1, off, data, clamp=cl)
            for b in range(nb):
                ob = off[b * n:(b + 1) * n] if axis == "y" else off[0:n]
                singles.append(C.kick_case("%s_%d" % (gid, b), axis, n, it, 1, -1, ob, data[b * n * n:(b + 1) * n * n], clamp=cl))
        elif kind == "rf":
            steps = rng.choice([50, 300, 1000])
            angle = f32(2 * math.pi / steps)
            lin = rng.random() < 0.5
            e = box + [angle, f32(4.5e8)] + ([] if lin else [f32(9e6 / (8e3 * steps)), f32(1e6), f32(4.5e4)])
            hd = "rf %s %d %d %d %s\nextra %s\n"
            multi = hd % (gid, n, it, nb, "lin" if lin else "sin", ex(e)) + "data %s\nrun\n" % ex(data)
            for b in range(nb):
                singles.append(hd % ("%s_%d" % (gid, b), n, it, 1, "lin" if lin else "sin", ex(e)) +
                               "data %s\nrun\n" % ex(data[b * n * n:(b + 1) * n * n]))
        elif kind == "dynrf":
            # the dynamic RF map (deterministic phase modulation, no noise): one kick, every bunch against itself alone
            steps = rng.choice([50, 300, 1000])
            angle = f32(2 * math.pi / steps)
            lin = rng.random() < 0.5
            e = box + [angle, f32(4.5e8), f32(9e6 / (8e3 * steps)), f32(1e6), f32(4.5e4), 0.0, 0.0,
                       f32(rng.uniform(0.01, 0.05)), f32(rng.uniform(0.01, 0.1))]
            hd = "dynrf %s %d %d %d %s 4\nextra %s\n"
            multi = hd % (gid, n, it, nb, "lin" if lin else "sin", ex(e)) + "data %s\nops a\nrun\n" % ex(data)
            for b in range(nb):
                singles.append(hd % ("%s_%d" % (gid, b), n, it, 1, "lin" if lin else "sin", ex(e)) +
                               "data %s\nops a\nrun\n" % ex(data[b * n * n:(b + 1) * n * n]))
        elif kind == "ident":
            # the identity map stands in for the wake kick without impedance and for the Fokker-Planck step without damping
            hd = "ident %s %d %d\n"
            multi = hd % (gid, n, nb) + "data %s\nrun\n" % ex(data)
            for b in range(nb):
                singles.append(hd % ("%s_%d" % (gid, b), n, 1) + "data %s\nrun\n" % ex(data[b * n * n:(b + 1) * n * n]))
        elif kind == "drift":
            steps = rng.choice([50, 300, 1000])
            angle = f32(2 * math.pi / steps)
            e = box + [angle, f32(angle * rng.uniform(-3, 3)), f32(angle * rng.uniform(-30, 30)), f32(1.3e9)]
            cl = 1 if k % 2 == 1 else 0
            hd = "drift %s %d %d %d " + str(cl) + "\nextra %s\n"
            multi = hd % (gid, n, it, nb, ex(e)) + "data %s\nrun\n" % ex(data)
            for b in range(nb):
                singles.append(hd % ("%s_%d" % (gid, b), n, it, 1, ex(e)) +
                               "data %s\nrun\n" % ex(data[b * n * n:(b + 1) * n * n]))
        else:
            if n < 8:
                n = 8
                one = C.data_family(rng, n, 1, "noise", 0)
                data = one * nb if same else C.data_family(rng, n, nb, "noise", 0)
            dt, fpt = rng.choice([3, 4]), rng.choice([0, 1, 2, 3])
            e1 = f32(10 ** rng.uniform(-4, -1))
            e = [e1, -6.0, 6.0, box[2], box[3]]
            hd = "fp %s %d %d %d %d 0\nextra %s\n"
            multi = hd % (gid, n, nb, dt, fpt, ex(e)) + "data %s\nrun\n" % ex(data)
            for b in range(nb):
                singles.append(hd % ("%s_%d" % (gid, b), n, 1, dt, fpt, ex(e)) +
                               "data %s\nrun\n" % ex(data[b * n * n:(b + 1) * n * n]))
        groups.append(dict(id=gid, kind=kind, n=n, nb=nb, it=it, same=same, multi=multi, singles=singles,
                           data=data))
    return groups


def oracle(g, A):
    out = corr.hexes_of(A.get(g["id"], []), "out")
    if out is None:
        return "no output for the multi-bunch case"
    n, nb = g["n"], g["nb"]
    for b in range(nb):
        so = corr.hexes_of(A.get("%s_%d" % (g["id"], b), []), "out")
        if so is None:
            return "no output for single-bunch case %d" % b
        sl = out[b * n * n:(b + 1) * n * n]
        if sl != so:
            i = next(i for i in range(n * n) if sl[i] != so[i])
            return ("%s: bunch %d of %d transported in the train differs from the same bunch transported alone "
                    "(cell %d: %g vs %g)" % (g["kind"], b, nb, i, h2f(sl[i]), h2f(so[i])))
    if g["same"]:
        for b in range(1, nb):
            if out[b * n * n:(b + 1) * n * n] != out[0:n * n]:
                return "%s: identical bunches 0 and %d differ after one step" % (g["kind"], b)
    return None


def explore(chk, harness, count, sizes, tag):
    rng = lib.Rng(chk.seed, "C08/" + tag)
    groups = gen(rng, count, sizes)
    optexts = {}
    for g in groups:
        optexts[g["id"]] = g["multi"]
        for b, s in enumerate(g["singles"]):
            optexts["%s_%d" % (g["id"], b)] = s
    A, B, mism, drift, san = corr.run_correspondence(chk, harness, optexts, tag)
    # the sinusoidal dynamic RF map has no class-level model (the driver says so): those cases are judged by the oracle only
    mism = [(c, d) for c, d in mism if not any(l.startswith("skip") for l in B.get(c, []))]
    fails = []
    for g in groups:
        f = oracle(g, A)
        if f:
            fails.append((g, f))
    return groups, optexts, mism, drift, san, fails


def group_text(g):
    return g["multi"] + "".join(g["singles"])


def run(chk):
    ok, det = lib.prove(chk, MODULES, min_examples=0)
    harness = lib.build_harness()
    quick = chk.tier == "quick"
    sizes = [4, 5, 8, 16, 17] if quick else [4, 5, 8, 9, 16, 17, 24, 32]
    count = 100 if quick else 2500
    groups, optexts, mism, drift, san, fails = explore(chk, harness, count, sizes, "main")
    chk.cov["evaluations"] = len(optexts)
    chk.cov["distinct_nontrivial"] = len({g["multi"] for g in groups if any(x != 0.0 for x in g["data"])})
    chk.cov["rule"] = ("groups of one multi-bunch step (kick/rf/drift/fokker-planck; 2,3,5 bunches; per-bunch "
                       "offset fields and data, 30% identical bunches) and the same step on every bunch alone; "
                       "distinct = distinct op text, non-trivial = non-zero data")
    d = {}
    for g in groups:
        for k in ("kind", "nb", "n", "same"):
            d["%s=%s" % (k, g[k])] = d.get("%s=%s" % (k, g[k]), 0) + 1
    chk.cov["distribution"] = d
    chk.cov["correspondence"] = {"cases": len(optexts), "mismatches": len(mism), "bitwise_drift": drift}
    chk.cov["samples"] = [{"case": groups[0]["multi"][:300]},
                          {"theorem": "Inovesa.Props.C08.applyY_blockwise: applyY on a train = concatenation of the single-bunch map with block min(b,lastbunch) on bunch b's data"}]
    chk.assumptions += ["kick part proved on Model/KickMap.lean (hand model, bitwise-validated incl. multi-bunch table addressing); "
                        "Fokker-Planck/identity bunch loop covered by correspondence + oracle (fpApply is defined bunch-wise)"]
    if san:
        chk.violation("sanitizer/abort in the implementation: " + san[:300],
                      "# harness aborted\n" + san + "\n" + "".join(optexts.values())[:200000], tag="sanitizer")
    for g, f in fails[:1]:
        chk.violation("C08 violated: " + f, "# C08 oracle failure: %s\n%s" % (f, group_text(g)), tag="oracle_" + g["id"])
    broken = []
    if not ok:
        broken.append("proof obligation: " + str(det.get("broken"))[:1500])
    if mism:
        broken.append("correspondence (model vs implementation): case %s: %s" % mism[0])
    if broken and not fails and not san:
        groups2, opt2, mism2, drift2, san2, fails2 = explore(chk, harness, 1200, [4, 5, 8, 16, 17], "search")
        chk.cov["search"] = {"cases": len(opt2), "oracle_failures": len(fails2)}
        if fails2:
            g, f = fails2[0]
            chk.violation("C08 violated: %s; broken: %s" % (f, broken[0][:300]),
                          "# C08 oracle failure found by search: %s\n%s" % (f, group_text(g)), tag="search_" + g["id"])
        else:
            txt = "# C08 no longer shown; no failing input found by the search\n# %s\n" % (
                "\n# ".join(b.replace("\n", "\n# ") for b in broken))
            if mism and mism[0][0] in optexts:
                txt += "# first differing correspondence case follows\n" + optexts[mism[0][0]]
            chk.violation("C08 no longer shown: " + broken[0][:400], txt, tag="unproved", found_input=False)


def replay(chk, path):
    harness = lib.build_harness()
    with open(path) as f:
        txt = f.read()
    a, b, rc, err, rc2, err2 = C.run_both(harness, txt, "replay")
    print("\n".join(l[:200] for l in a[:50]))
    chk.cov["evaluations"] = len(C.split_cases(a))
