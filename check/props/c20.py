"""C20 — command line beats config file beats default; legacy aliases are honoured."""
import os
import subprocess
import sys

sys.path.insert(0, os.path.dirname(os.path.dirname(os.path.abspath(__file__))))
import lib  # noqa
import cases as C  # noqa
import optcommon as O  # noqa
import prog  # noqa

MODULES = ["InovesaModel.Props.C20"]
LEVEL = "proof"


def malformed_cases(rng, opts, cli_groups, cfg_groups, count):
    """unknown options, malformed values, missing config file -> must fail / not run"""
    recs = []
    names = [o for g in cli_groups for o in opts if o["group"] == g and o["ty"] in ("f32", "f64", "u32", "i32")]
    for k in range(count):
        kind = ["unknown-cli", "malformed-cli", "unknown-cfg", "malformed-cfg", "missing-cfg", "stray-token"][k % 6]
        cid = "x%d" % k
        o = rng.choice(names)
        bad = rng.choice(["abc", "1.5x", "--", "1e", "0x1g"])
        if kind == "unknown-cli":
            argv = ["--config", "/dev/null", "--%s" % rng.choice(["nonsense", "GridSizes", "foo"]), "3"]
            cfg = None
        elif kind == "malformed-cli":
            argv = ["--config", "/dev/null", "--%s=%s" % (o["name"], bad)]
            cfg = None
        elif kind == "stray-token":
            # a token that belongs to no option (forgotten dash, `key=value` typed on the command line, a second value
            # for a single-valued option): must stop the program like any other unknown token
            stray = rng.choice(["stray", "T=5", "GridSize", "%s=3" % o["name"], "1e-3"])
            valid = ["--%s" % o["name"], "3"]
            argv = ["--config", "/dev/null"] + rng.choice([[stray] + valid, valid + [stray], [stray]])
            cfg = None
        elif kind == "unknown-cfg":
            argv = ["--config", "@CFG@"]
            cfg = ["NoSuchOption=1"]
        elif kind == "malformed-cfg":
            argv = ["--config", "@CFG@"]
            cfg = ["%s=%s" % (o["name"], bad)]
        else:
            # a config file that does not exist - also one that is CALLED default.cfg but lives in another directory
            # (only the implicit ./default.cfg may be missing silently)
            argv = ["--config", rng.choice(["@NOFILE@", "/nonexistent_dir_%d/default.cfg" % rng.randint(0, 99),
                                            "no_such_subdir/default.cfg"])]
            cfg = None
        text = "opts %s\nargv %s\n%srun\n" % (cid, " ".join(argv), ("cfg %s\n" % " ".join(cfg)) if cfg else "")
        recs.append(dict(id=cid, kind=kind, argv=argv, cfg=cfg or [], optext=text, expect="norun" if kind == "missing-cfg" else "error"))
    return recs


def precedence_expectation(rec, opts, cli_groups, cfg_groups):
    """{var: (ty, tokens)} demanded by the property: cli > cfg > cfg(alias) > default"""
    cli_desc = [o for g in cli_groups for o in opts if o["group"] == g]
    cfg_desc = [o for g in cfg_groups for o in opts if o["group"] == g]
    exp = {}
    for o in cli_desc + cfg_desc:
        if not o["var"] or o["name"] in O.ALIASES or o["var"] == "_hi":
            continue
        name = o["name"]
        ch = rec["chosen"].get(name, {})
        alias = next((a for a, cur in O.ALIASES.items() if cur == name), None)
        if "cli" in ch:
            toks = ch["cli"]
        elif "cfg" in ch:
            toks = ch["cfg"]
        elif alias and "cfg" in rec["chosen"].get(alias, {}):
            toks = rec["chosen"][alias]["cfg"]
        else:
            d = next((x["default"] for x in cli_desc if x["name"] == name and x["default"] is not None), None)
            if d is None:
                d = next((x["default"] for x in cfg_desc if x["name"] == name and x["default"] is not None), None)
            if d is None:
                continue
            toks = [d]
        if o["var"] in exp and exp[o["var"]][1] != toks and name in ("gui",):
            continue
        exp.setdefault(o["var"], (o["ty"], toks))
    return exp


def explore(chk, harness, count, tag):
    rng = lib.Rng(chk.seed, "C20/" + tag)
    opts, cg, fg = O.option_table()
    gmap = O.getter_map()
    recs = [O.gen_case(rng, "o%d" % k, opts, cg, fg) for k in range(count)]
    # do not put an alias and its current name into the same config file (the property does not say who wins)
    for r in recs:
        for a, cur in O.ALIASES.items():
            if "cfg" in r["chosen"].get(a, {}) and "cfg" in r["chosen"].get(cur, {}):
                r["skip_prec"] = True
    bad = malformed_cases(rng, opts, cg, fg, max(10, count // 5))
    txt = "".join(r["optext"] for r in recs + bad)
    a, b, rc, err, rc2, err2 = C.run_both(harness, txt, "C20" + tag)
    A, B = C.split_cases(a), C.split_cases(b)
    mism, fails = [], []
    san = "harness exited with status %d\n%s" % (rc, err[-3000:]) if rc != 0 else ""
    for r in recs + bad:
        la, lb = A.get(r["id"], []), B.get(r["id"], [])
        sa = [l for l in la if l.startswith("txt")]
        sb = [l for l in lb if l.startswith("txt")]
        if sa != sb:
            mism.append((r["id"], "outcome: implementation %s, model %s" % (sa, sb)))
        if "expect" in r:
            if sa != ["txt " + r["expect"]]:
                fails.append((r, "%s: expected the program to %s, got %s" % (
                    r["kind"], "stop with an error" if r["expect"] == "error" else "stop before simulating", sa)))
            continue
        ga = [l for l in la if l.startswith("get")]
        vb = [l for l in lb if l.startswith("vars")]
        if ga and vb:
            d = O.compare_get(O.parse_get_line(ga[0]), O.parse_vars_line(vb[0]), gmap)
            if d:
                mism.append((r["id"], d))
        if ga and not r.get("skip_prec"):
            get = O.parse_get_line(ga[0])
            exp = precedence_expectation(r, opts, cg, fg)
            sub = {g: v for g, v in get.items() if gmap.get(g) in exp}
            d = O.compare_get(sub, exp, gmap)
            if d:
                fails.append((r, "precedence (command line > config file > default): " + d))
    return recs, bad, mism, san, fails


def run(chk):
    ok, det = lib.prove(chk, MODULES, min_examples=1)
    harness = lib.build_harness()
    quick = chk.tier == "quick"
    count = 150 if quick else 6000
    recs, bad, mism, san, fails = explore(chk, harness, count, "main")
    chk.cov["evaluations"] = len(recs) + len(bad)
    chk.cov["distinct_nontrivial"] = len({r["optext"] for r in recs if r["chosen"]}) + len({r["optext"] for r in bad})
    chk.cov["rule"] = ("type-directed random assignments: each option independently absent / on the command line / in the "
                       "config file / both (distinct values), legacy aliases in the config file, long/short/--name=value "
                       "forms, shuffled order; malformed stream: unknown keys, unparsable values, tokens that belong to no option, missing config file; "
                       "non-trivial = at least one option set; distinct = distinct op text")
    src = {"cli": 0, "cfg": 0, "both": 0, "alias": 0}
    for r in recs:
        for n, ch in r["chosen"].items():
            if n in O.ALIASES:
                src["alias"] += 1
            elif "cli" in ch and "cfg" in ch:
                src["both"] += 1
            elif "cli" in ch:
                src["cli"] += 1
            elif "cfg" in ch:
                src["cfg"] += 1
    chk.cov["distribution"] = {"option_sources": src, "malformed": {k: sum(1 for r in bad if r["kind"] == k)
                                                                   for k in set(r["kind"] for r in bad)}}
    chk.cov["correspondence"] = {"cases": len(recs) + len(bad), "mismatches": len(mism)}
    chk.cov["samples"] = [{"case": recs[0]["optext"][:300]},
                          {"theorem": "Inovesa.Props.C20.precedence: vm[k] = cli value, else cfg value, else cfg alias value, else default (generated table, model of boost store/notify)"}]
    chk.assumptions += [
        "boost::program_options semantics (store: first explicit wins per key, defaults applied last; notify in key order; unknown key / bad value throws) are MODELLED and validated by correspondence on the real parse()",
        "values are tokens; boost::lexical_cast is not modelled (tokens are converted by the comparer; values avoid double-rounding ambiguities)",
        "command-line tokenisation subset: --name value, --name=value, -x value, -xvalue, bare flags, multitoken -I",
    ]
    if san:
        chk.violation("sanitizer/abort in the implementation: " + san[:300], "# harness aborted\n" + san, tag="sanitizer")
    for r, f in fails[:1]:
        chk.violation("C20 violated: " + f, "# C20 oracle failure: %s\n%s" % (f, r["optext"]), tag="oracle_" + r["id"])
    broken = []
    if not ok:
        broken.append("proof obligation: " + str(det.get("broken"))[:1500])
    if mism:
        broken.append("correspondence (model vs implementation): case %s: %s" % mism[0])
    if broken and not fails and not san:
        recs2, bad2, mism2, san2, fails2 = explore(chk, harness, 2500, "search")
        chk.cov["search"] = {"cases": len(recs2), "oracle_failures": len(fails2)}
        if fails2:
            r, f = fails2[0]
            chk.violation("C20 violated: %s; broken: %s" % (f, broken[0][:300]),
                          "# C20 oracle failure found by search: %s\n%s" % (f, r["optext"]), tag="search_" + r["id"])
        else:
            byid = {r["id"]: r for r in recs + bad}
            txt = "# C20 no longer shown; no failing input found by the search\n# %s\n" % (
                "\n# ".join(b.replace("\n", "\n# ") for b in broken))
            if mism and mism[0][0] in byid:
                txt += "# first differing correspondence case follows\n" + byid[mism[0][0]]["optext"]
            chk.violation("C20 no longer shown: " + broken[0][:400], txt, tag="unproved", found_input=False)


def replay(chk, path):
    harness = lib.build_harness()
    with open(path) as f:
        txt = f.read()
    a, b, rc, err, rc2, err2 = C.run_both(harness, txt, "replay")
    print("\n".join(l[:300] for l in a[:20]))
    chk.cov["evaluations"] = len(C.split_cases(a))
