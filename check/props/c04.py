"""C04 — without impedance every start relaxes to the unit-width natural Gaussian."""
import math
import os
import sys

sys.path.insert(0, os.path.dirname(os.path.dirname(os.path.abspath(__file__))))
import lib  # noqa
import cases as C  # noqa
import corr  # noqa
from lib import f32, f2h, h2f  # noqa

MODULES = ["InovesaModel.Props.C04", "InovesaModel.Props.C01FP", "InovesaModel.Props.TieMain", "InovesaModel.Props.TieRuler", "InovesaModel.Props.TiePhysics",
           "InovesaModel.Props.TieMoments", "InovesaModel.Props.TieFPApply",
           "InovesaModel.Props.TieKick"]        # the bunch LENGTH relaxes through the rotation, i.e. through the kick maps     # the reported length and spread are what PhaseSpace::variance computes
LEVEL = "proof"
U = 2.0 ** -24


def gen(rng, count, quick):
    recs = []
    for k in range(count):
        n = rng.choice([32, 33, 48] if quick else [32, 33, 48, 64])
        dt = rng.choice([3, 4])
        fpt = k % 4
        e1 = f32(rng.choice([0.002, 0.005, 0.01, 0.02]))
        # every third case: a train of 2 or 3 bunches with different starts (each relaxes on its own)
        nb = rng.choice([2, 3]) if k % 3 == 2 else 1
        zooms = [rng.choice([0.5, 0.7, 1.0, 1.4]) for _ in range(nb)]
        zoom = zooms[0]
        sh = rng.choice([0.0, 0.0, rng.uniform(-0.6, 0.6)])
        pmin, pmax = f32(-6 + sh), f32(6 + sh)
        delta = (pmax - pmin) / (n - 1)
        # the explicit scheme is stable for e1/delta^2 < 1/2 only (a limit of the scheme the user has to respect; beyond it
        # grid-scale oscillations grow, reach the border rows and the moments stop following the recurrence)
        while e1 / (delta * delta) > 0.4:
            e1 = f32(e1 / 2)
        means = [rng.choice([0.0, 0.0, rng.uniform(-0.5, 0.5)]) for _ in range(nb)]
        mean = means[0]
        steps = int(min(2000 if quick else 6000, 6.0 / e1)) if fpt in (1, 3) else int(1.0 / e1)
        every = max(1, steps // 40)
        if nb > 1:
            steps = min(steps, 600)
            every = max(1, steps // 40)
        data = []
        for b in range(nb):
            for x in range(n):
                gx = math.exp(-((x - n / 2) / (n / 8)) ** 2)
                for y in range(n):
                    p = pmin + y * delta
                    data.append(f32(gx * math.exp(-0.5 * ((p - means[b]) / zooms[b]) ** 2)))
        cid = "r%d" % k
        recs.append(dict(id=cid, n=n, dt=dt, fpt=fpt, e1=e1, zoom=zoom, mean=mean, delta=delta, steps=steps,
                         every=every, pmin=pmin, pmax=pmax, nb=nb, zooms=zooms, means=means,
                         optext="fpiter %s %d %d %d %d %d %d\nextra %s\ndata %s\nrun\n" % (
                             cid, n, dt, fpt, steps, every, nb,
                             " ".join(f2h(x) for x in [e1, -6.0, 6.0, pmin, pmax]),
                             " ".join(f2h(x) for x in data))))
    return recs


def series(lines):
    out = []
    for l in lines:
        t = l.split()
        if t[0] == "vals":
            k, m0, m1, m2 = [h2f(x) for x in t[1:5]]
            out.append((int(k), m0, m1, m2))
    return out


def oracle(rec, A):
    ser = series(A.get(rec["id"], []))
    nb = rec.get("nb", 1)
    if len(ser) % nb != 0:
        return "moment series incomplete"
    for b in range(nb):
        f = oracle1(rec, ser[b::nb])
        if f:
            return f if nb == 1 else "bunch %d of %d (start zoom %g, mean %g): %s" % (b, nb, rec["zooms"][b], rec["means"][b], f)
    return None


def oracle1(rec, ser):
    if len(ser) < 3:
        return "no moment series"
    e1, d, fpt, dt = rec["e1"], rec["delta"], rec["fpt"], rec["dt"]
    k0, m0_0, m1_0, m2_0 = ser[0]
    # centred variance
    var = [(k, m2 / m0 - (m1 / m0) ** 2, m1 / m0, m0) for k, m0, m1, m2 in ser]
    v0 = var[0][1]
    tol_rel = 2e-3
    if fpt == 0:
        # identity apart from the zeroed border rows: whatever reaches them is removed by the first
        # application; afterwards nothing changes any more
        if len(var) > 2:
            v1 = var[1][1]
            for k, v, mu, m0 in var[2:]:
                if abs(v - v1) > 1e-6 * max(1.0, v1):
                    return "no damping, no diffusion: spread changed from %g to %g between steps %d and %d" % (
                        v1, v, var[1][0], k)
            if abs(v1 - v0) > 0.01 * v0:
                return "no damping, no diffusion: first step changed the spread^2 from %g to %g" % (v0, v1)
        return None
    if fpt == 2:
        prev = v0
        last = None
        for k, v, mu, m0 in var[1:]:
            if abs(m0 - m0_0) > 5e-4 * abs(m0_0):
                break
            if not v > prev:
                return "diffusion only: spread^2 not growing (%g -> %g at step %d)" % (prev, v, k)
            prev = v
            last = (k, v)
        if last:
            k, v = last
            want = v0 + 2 * e1 * k
            if abs(v - want) > 0.02 * want:
                return "diffusion only: spread^2 after %d steps is %g, expected %g" % (k, v, want)
        return None
    # damping present
    vstar = (1 - d * d / 2) if (fpt == 3 and dt == 3) else (1.0 if fpt == 3 else (-d * d / 2 if dt == 3 else 0.0))
    q = 1 - 2 * e1
    prev = None
    used = 0
    for k, v, mu, m0 in var:
        # the proved recurrence is for data supported inside the grid: stop once charge leaks through the
        # zeroed border rows (theorem fp3_full_moment_step_remainder), and, for damping only, once the
        # distribution is no longer resolved (narrower than 3 cells: the centred scheme then oscillates)
        if abs(m0 - m0_0) > 5e-4 * abs(m0_0):
            break
        if fpt == 1 and v < 9 * d * d:
            break
        used += 1
        want = vstar + q ** k * (v0 - vstar)
        # mean decays like (1-e1)^k; the centred variance picks up -e1^2 mu^2 per step (negligible) and the
        # 4-point stencil an O(e1) switch-row defect: tolerance 1% of the natural variance
        if abs(v - want) > 0.012 * max(1.0, v0):
            return "spread^2 at step %d is %g, recurrence predicts %g (fixed point %g)" % (k, v, want, vstar)
        if prev is not None and abs(v0 - vstar) > 0.05:
            if (v0 > vstar and v > prev + 1e-6) or (v0 < vstar and v < prev - 1e-6):
                if abs(v - vstar) > 2e-3:
                    return "spread^2 not monotone towards its limit (%g -> %g at step %d)" % (prev, v, k)
        prev = v
    if used < 3:
        return None
    k, v = var[used - 1][0], var[used - 1][1]
    if fpt == 3:
        if abs(v - 1.0) > max(0.6 * d * d, 0.02) + abs(q ** k * (v0 - vstar)):
            return "energy spread^2 converged to %g, not to 1 within the discretisation error (delta^2/2 = %g)" % (
                v, d * d / 2)
    if fpt == 1 and not v < v0:
        return "damping only: spread did not shrink (%g -> %g)" % (v0, v)
    return None


def explore(chk, harness, count, quick, tag):
    rng = lib.Rng(chk.seed, "C04/" + tag)
    recs = gen(rng, count, quick)
    optexts = {r["id"]: r["optext"] for r in recs}
    A, B, mism, drift, san = corr.run_correspondence(chk, harness, optexts, tag)
    fails = [(r, f) for r in recs for f in [oracle(r, A)] if f]
    # limit independent of the start: group by (n, dt, e1, shift) is not guaranteed; compare fixed points instead
    return recs, optexts, mism, drift, san, fails


def run(chk):
    ok, det = lib.prove(chk, MODULES, min_examples=2)
    harness = lib.build_harness()
    quick = chk.tier == "quick"
    count = 16 if quick else 120
    recs, optexts, mism, drift, san, fails = explore(chk, harness, count, quick, "main")
    chk.cov["evaluations"] = len(recs)
    chk.cov["distinct_nontrivial"] = len({r["optext"] for r in recs})
    chk.cov["rule"] = ("pure Fokker-Planck iterations of the real FokkerPlanckMap (both stencils, four variants, "
                       "e1 in {0.002..0.02}, initial zoom 0.5..2, shifted grids, off-centre starts), up to several "
                       "damping times; moment series compared with the proved recurrence; the Lean model iterates the "
                       "same map bitwise; distinct = distinct op text")
    d = {}
    for r in recs:
        for key in ("dt", "fpt", "zoom", "n", "nb"):
            d["%s=%s" % (key, r[key])] = d.get("%s=%s" % (key, r[key]), 0) + 1
    chk.cov["distribution"] = d
    chk.cov["steps_iterated"] = sum(r["steps"] for r in recs)
    chk.cov["correspondence"] = {"cases": len(recs), "mismatches": len(mism), "bitwise_drift": drift}
    chk.cov["samples"] = [{"case": recs[0]["optext"][:160]},
                          {"theorem": "Inovesa.Props.C04.fp3_full_moment_step: m0'=m0, m1'=(1-e1)m1, m2'=(1-2e1)m2+e1(2-delta^2)m0 for the generated 3-point stencil, all n, e1, delta, data supported on 2..n-3"},
                          {"theorem": "second_moment_closed_form / second_moment_converges / second_moment_with_leakage / damping_only_shrinks / diffusion_only_grows / fp4_full_col_moments"}]
    chk.assumptions += [
        "pure Fokker-Planck iteration (no rotation): the coupled rotation+damping rate is not proved; bunch length relaxes through the rotation, which C03 treats",
        "boundary leakage enters as the explicit remainder of fp3_full_moment_step_remainder / second_moment_with_leakage",
        "4-point stencil: second-moment recurrence proved for columns away from the switch row; the O(e1) switch-row defect is measured",
    ]
    # whole program: the damping decrement must follow the number of steps actually used, however it is given
    import progcommon as P
    exe, h5 = lib.build_inovesa("plain"), lib.build_h5dump()
    prng = lib.Rng(chk.seed, "C04/program")
    pruns = []
    for _ in range(1 if quick else 4):
        steps = prng.choice([100, 150, 200])
        td = prng.choice([2.5, 3.0, 4.0]) / P.sync_freq_default()
        f, a = P.steps_equivalence(exe, h5, steps, ["-s", str(prng.choice([32, 48])), "-T", "6", "-n", str(steps // 2), "-G", "0",
                                                    "-d", repr(td), "--InitialDistZoom", repr(prng.choice([0.6, 1.5])),
                                                    "--derivation", str(prng.choice([3, 4]))],
                                    ["/EnergySpread/data", "/BunchLength/data", "/Info/AxisValues_t"], 2e-4)
        pruns.append(steps)
        if f:
            chk.violation("C04 violated: relaxation depends on how the step count is given: " + f,
                          "# C04: %s\ninovesa %s\n# versus the same command with `-N %d` instead of --StepsPerRevolution\n" % (f, " ".join(a), steps),
                          tag="program")
            fails = fails + [(recs[0], f)]
    chk.cov["program_steps_equivalence_runs"] = pruns
    # whole program, no impedance, a train of buckets started off the natural size: EVERY bunch must relax to the natural
    # spread (the loop then runs an identity map in place of the wake kick; all maps must act on all bunches)
    import prog
    import shutil
    for run_no in range(1 if quick else 3):
        steps = prng.choice([100, 150])
        tdp = prng.choice([2.5, 3.0])
        zoom = prng.choice([0.6, 1.5])
        dtn = prng.choice([3, 4])
        n = prng.choice([32, 48])
        cur = prng.choice([["0.001", "0.002"], ["0.001", "0", "0.0005"]])
        # the grid may be shifted along one axis only: both axes keep the same cell size, the natural size stays 1
        sh = prng.choice([["--PhaseSpaceShiftX", "2"], ["--PhaseSpaceShiftY", "-2"], ["--PhaseSpaceShiftX", "-3"]])
        sh += ["--InterpolationPoints", str(3 if run_no == 0 else prng.choice([3, 4]))]     # quadratic as well as cubic interpolation
        a = list(prog.BASE_ARGS) + ["-s", str(n), "-N", str(steps), "-T", str(int(6 * tdp)), "-n", str(steps), "-G", "0",
                                    "-d", repr(tdp / P.sync_freq_default()), "--InitialDistZoom", repr(zoom),
                                    "--derivation", str(dtn)] + sh + ["-o", "a.h5", "-I"] + cur
        d = prog.scratch()
        try:
            r = prog.run_inovesa(exe, a, d)
            if r.rc != 0:
                chk.violation("C04: program run failed: " + (r.err or r.out)[-200:], "inovesa %s\n" % " ".join(a), tag="program")
                continue
            D = prog.dump(h5, os.path.join(d, "a.h5"))
        finally:
            shutil.rmtree(d, ignore_errors=True)
        nbun = sum(1 for c in cur if float(c) > 0)
        sp = prog.fvals(D["dsets"]["/EnergySpread/data"])
        delta = 12.0 / (n - 1)
        want = math.sqrt(1 - delta * delta / 2) if dtn == 3 else 1.0
        last = sp[-nbun:]
        for b, v in enumerate(last):
            if not abs(v - want) <= 0.02:
                f = ("program without impedance, %d bunches started at %.1f times the natural size: after 6 damping times bunch %d "
                     "has energy spread %.4f, natural spread %.4f" % (nbun, zoom, b, v, want))
                chk.violation("C04 violated: " + f, "# C04: %s\ninovesa %s\n" % (f, " ".join(a)), tag="program_train")
                fails = fails + [(recs[0], f)]
                break
    chk.cov["program_train_runs"] = 1 if quick else 3
    # whole program: the limit does not depend on the initial size, also when the start is so wide that part of the
    # charge leaves the grid before the bunch has relaxed (length and spread are moments per unit of the charge PRESENT)
    pairs = 0
    for _ in range(1 if quick else 3):
        steps = prng.choice([100, 150])
        tdp = prng.choice([2.5, 3.0])
        dtn = prng.choice([3, 4])
        n = prng.choice([48, 64])
        ends = {}
        for zoom in (0.6, prng.choice([2.2, 2.6, 3.0])):
            a = list(prog.BASE_ARGS) + ["-s", str(n), "-N", str(steps), "-T", str(int(9 * tdp)), "-n", str(steps), "-G", "0",
                                        "-d", repr(tdp / P.sync_freq_default()), "--InitialDistZoom", repr(zoom),
                                        "--derivation", str(dtn), "-o", "a.h5"]
            d = prog.scratch()
            try:
                r = prog.run_inovesa(exe, a, d)
                if r.rc != 0:
                    chk.violation("C04: program run failed: " + (r.err or r.out)[-200:], "inovesa %s\n" % " ".join(a), tag="program")
                    continue
                D = prog.dump(h5, os.path.join(d, "a.h5"))
            finally:
                shutil.rmtree(d, ignore_errors=True)
            ends[zoom] = (prog.fvals(D["dsets"]["/BunchLength/data"])[-1], prog.fvals(D["dsets"]["/EnergySpread/data"])[-1], a)
        if len(ends) == 2:
            pairs += 1
            (z1, e1_), (z2, e2_) = sorted(ends.items())
            for name, v1, v2 in (("bunch length", e1_[0], e2_[0]), ("energy spread", e1_[1], e2_[1])):
                if not abs(v1 - v2) <= 4e-3:
                    f = ("program without impedance: after 9 damping times the %s is %.5f from a start of %.1f natural sizes and "
                         "%.5f from a start of %.1f natural sizes - the limit depends on the initial distribution" % (name, v1, z1, v2, z2))
                    chk.violation("C04 violated: " + f, "# C04: %s\ninovesa %s\n# versus\ninovesa %s\n" % (
                        f, " ".join(e1_[2]), " ".join(e2_[2])), tag="program_start")
                    fails = fails + [(recs[0], f)]
                    break
    chk.cov["program_start_independence_pairs"] = pairs
    if san:
        chk.violation("sanitizer/abort in the implementation: " + san[:300],
                      "# harness aborted\n" + san + "\n" + "".join(optexts.values())[:200000], tag="sanitizer")
    for r, f in fails[:1]:
        chk.violation("C04 violated: " + f + " [n=%d dt=%d fptype=%d e1=%g zoom=%g]" % (r["n"], r["dt"], r["fpt"], r["e1"], r["zoom"]),
                      "# C04 oracle failure: %s\n%s" % (f, r["optext"]), tag="oracle_" + r["id"])
    broken = []
    if not ok:
        broken.append("proof obligation: " + str(det.get("broken"))[:1500])
    if mism:
        broken.append("correspondence (model vs implementation): case %s: %s" % mism[0])
    if broken and not fails and not san:
        recs2, opt2, mism2, drift2, san2, fails2 = explore(chk, harness, 60, True, "search")
        chk.cov["search"] = {"cases": len(recs2), "oracle_failures": len(fails2)}
        if fails2:
            r, f = fails2[0]
            chk.violation("C04 violated: %s; broken: %s" % (f, broken[0][:300]),
                          "# C04 oracle failure found by search: %s\n%s" % (f, r["optext"]), tag="search_" + r["id"])
        else:
            txt = "# C04 no longer shown; no failing input found by the search\n# %s\n" % (
                "\n# ".join(b.replace("\n", "\n# ") for b in broken))
            if mism and mism[0][0] in optexts:
                txt += "# first differing correspondence case follows\n" + optexts[mism[0][0]]
            chk.violation("C04 no longer shown: " + broken[0][:400], txt, tag="unproved", found_input=False)


def replay(chk, path):
    harness = lib.build_harness()
    with open(path) as f:
        txt = f.read()
    a, b, rc, err, rc2, err2 = C.run_both(harness, txt, "replay")
    print("\n".join(l[:200] for l in a[:50]))
    chk.cov["evaluations"] = len(C.split_cases(a))
