"""C12 — observing the simulation does not change it; equal inputs give equal outputs."""
import os
import shutil
import sys

sys.path.insert(0, os.path.dirname(os.path.dirname(os.path.abspath(__file__))))
import lib  # noqa
import prog  # noqa
import progcommon as P  # noqa

MODULES = ["InovesaModel.Props.C12"]
LEVEL = "proof"
PHYS = ["/PhaseSpace/data", "/BunchProfile/data", "/BunchLength/data", "/BunchPosition/data", "/EnergyProfile/data",
        "/EnergySpread/data", "/EnergyAverage/data", "/BunchPopulation/data", "/WakePotential/data",
        "/CSR/Spectrum/data", "/CSR/Intensity/data"]


def run_variant(exe, h5, cfg, var, tag):
    d = prog.scratch()
    try:
        c = dict(cfg)
        c.update({k: v for k, v in var.items() if k in ("outstep", "h5save")})
        extra = []
        if var.get("tracking"):
            with open(os.path.join(d, "track.txt"), "w") as f:
                f.write("0.1 0.2\n-0.5 0.3\n1.0 -1.0\n0 0\n")
            extra += ["--tracking", "track.txt"]
        if var.get("verbose"):
            extra += ["--verbose=1"]
        out = var.get("name", "a.h5")
        r = prog.run_inovesa(exe, P.args_of(c, out=out, extra=extra), d)
        if r.rc != 0 or not os.path.exists(os.path.join(d, out)):
            return None, "variant %s: exit status %d %s" % (tag, r.rc, (r.err or r.out)[-300:])
        return prog.dump(h5, os.path.join(d, out)), None
    finally:
        shutil.rmtree(d, ignore_errors=True)


def records_by_time(D, name, axis):
    ds = D["dsets"].get(name)
    ax = D["dsets"].get(axis)
    if not ds or not ax or not ds[2] or ds[2][0] == 0:
        return {}
    nrec = ds[2][0]
    per = len(ds[3]) // nrec
    return {ax[3][i]: ds[3][i * per:(i + 1) * per] for i in range(min(nrec, len(ax[3])))}


def compare(D0, D1, what, initial_record_exception=False):
    # final phase space
    p0 = records_by_time(D0, "/PhaseSpace/data", "/PhaseSpace/axis0")
    p1 = records_by_time(D1, "/PhaseSpace/data", "/PhaseSpace/axis0")
    last0 = D0["dsets"]["/PhaseSpace/axis0"][3][-1]
    last1 = D1["dsets"]["/PhaseSpace/axis0"][3][-1]
    if last0 != last1:
        return "%s: runs end at different times (%s vs %s)" % (what, last0, last1)
    if p0[last0] != p1[last1]:
        k = next(i for i in range(len(p0[last0])) if p0[last0][i] != p1[last1][i])
        return "%s: final phase space differs bit-wise (cell %d: %s vs %s)" % (what, k, p0[last0][k], p1[last1][k])
    for t in set(p0) & set(p1):
        if t == "00000000" and initial_record_exception:
            continue      # known finding initial-record (witnessed separately by initial_record_witness)
        if p0[t] != p1[t]:
            return "%s: phase-space records at t=%s differ" % (what, t)
    k0, k1 = D0["dsets"].get("/RFKicks/data"), D1["dsets"].get("/RFKicks/data")
    if k0 and k1 and k0[3] != k1[3]:
        return "%s: the table of applied RF kicks (/RFKicks/data) differs between the two runs" % what
    for name in PHYS[1:]:
        r0 = records_by_time(D0, name, "/Info/AxisValues_t")
        r1 = records_by_time(D1, name, "/Info/AxisValues_t")
        for t in set(r0) & set(r1):
            if r0[t] != r1[t]:
                return "%s: records of %s at t=%s differ between the two runs" % (what, name, t)
    return None


def explore(chk, exe, h5, nconf, nvar, tag):
    rng = lib.Rng(chk.seed, "C12/" + tag)
    fails, evals, cfgs = [], 0, []
    for ci in range(nconf):
        cfg = P.gen_config(rng, True, allow_rfmod=True)
        if ci % 2 == 1 and not cfg.get("rfmod"):
            cfg["rfmod"] = [0.5, 45000.0, ci // 2 % 2]
        if ci % 2 == 0:
            # renormalisation inside the loop, a wake, and a start that is not exactly normalised: the cadence variants
            # below make output steps coincide with renormalisation steps in one run and not in the other
            cfg["renorm"] = rng.choice([2, 3, 4])
            cfg["zoom"] = rng.choice([1.2, 1.5])
            if cfg["imp"] == "none":
                cfg["imp"] = "pp"
        cfgs.append(cfg)
        base = dict(outstep=cfg["outstep"] if cfg["outstep"] else 1, h5save=cfg["h5save"])
        if ci % 2 == 0:
            base["outstep"] = cfg["renorm"] + 1          # in the base run only every renorm-th output step renormalises
        D0, err = run_variant(exe, h5, cfg, base, "base")
        evals += 1
        if err:
            fails.append((cfg, base, err))
            continue
        variants = [dict(base, outstep=rng.choice([0, 1, 2, 3, 5, 1000])) for _ in range(max(1, nvar - 4))]
        if ci % 2 == 0:
            variants[0] = dict(base, outstep=cfg["renorm"])          # every output step is a renormalisation step
        variants += [dict(base, h5save=rng.choice([0, 1, 2])), dict(base, tracking=True), dict(base, verbose=True),
                     dict(base, name="other_name.h5"), dict(base)]
        for v in variants[:nvar]:
            D1, err = run_variant(exe, h5, cfg, v, repr(v))
            evals += 1
            if err:
                fails.append((cfg, v, err))
                continue
            # known finding initial-record: ONLY with RenormalizeCharge > 0 and only between a run that stores the start
            # grid before the loop (SavePhaseSpace = 0) and one that stores it inside the loop (SavePhaseSpace > 0)
            exc = cfg.get("renorm", 0) > 0 and ((v.get("h5save", base["h5save"]) == 0) != (base["h5save"] == 0))
            f = compare(D0, D1, "variant %r vs %r" % (v, base), initial_record_exception=exc)
            if f:
                fails.append((cfg, v, f))
    return cfgs, evals, fails


def initial_record_witness(exe, h5):
    """known finding initial-record: RenormalizeCharge = 1, start 1.3 natural sizes wide; the phase space stored under
    t = 0 with SavePhaseSpace = 0 (before the loop) and with SavePhaseSpace = 1 (inside the loop, after normalize())"""
    cfg = dict(n=32, N=40, T=0.5, outstep=5, h5save=0, cur=[0.003], imp="pp", renorm=1, shx=0, shy=0, pad=2, it=4, dt=4, zoom=1.3)
    D0, e0 = run_variant(exe, h5, cfg, dict(outstep=5, h5save=0), "witness0")
    D1, e1 = run_variant(exe, h5, cfg, dict(outstep=5, h5save=1), "witness1")
    if e0 or e1:
        return cfg, None, "witness run failed: %s" % (e0 or e1)
    p0 = records_by_time(D0, "/PhaseSpace/data", "/PhaseSpace/axis0")
    p1 = records_by_time(D1, "/PhaseSpace/data", "/PhaseSpace/axis0")
    differs = p0.get("00000000") != p1.get("00000000")
    other = compare(D0, D1, "initial-record witness", initial_record_exception=True)
    return cfg, differs, other


def replay_text(cfg, var, what):
    return "# C12: %s\n# base configuration: %r\n# variant: %r\n# base command: inovesa %s\n" % (
        what, cfg, var, " ".join(P.args_of(cfg)))


def run(chk):
    ok, det = lib.prove(chk, MODULES, min_examples=0)
    exe = lib.build_inovesa("plain")
    h5 = lib.build_h5dump()
    quick = chk.tier == "quick"
    nconf, nvar = (2, 5) if quick else (12, 14)
    cfgs, evals, fails = explore(chk, exe, h5, nconf, nvar, "main")
    chk.cov["evaluations"] = evals
    chk.cov["distinct_nontrivial"] = evals
    chk.cov["rule"] = ("for each base configuration: variants differing only in output cadence (incl. never / every step), "
                       "phase-space save cadence, tracking file, verbosity, output file name, plus an identical repetition; "
                       "final phase space and all common records compared bit-wise; FFT wisdom shared (XDG_DATA_HOME pinned)")
    chk.cov["samples"] = [{"config": cfgs[0]},
                          {"theorem": "Inovesa.Props.C12.noninterference: physOf after k steps independent of outstep/h5save/hasFile/caches/tracks; deterministic_step; common_records_equal"}]
    chk.assumptions += [
        "determinism of the numerics (FFTW with fixed wisdom, no RF noise) is observed by the bit-wise oracle, not proved; the theorem is non-interference on the generated main-loop skeleton over uninterpreted physics",
        "tracking noise (std::random_device) only reaches /Particles, which is excluded from the comparison",
        "the full statement for stored phase spaces is false of the code (Lean: common_phase_spaces_full_false; known finding initial-record): the t=0 record is excepted only between SavePhaseSpace=0 and SavePhaseSpace>0 runs with RenormalizeCharge>0",
    ]
    wcfg, wdiff, wother = initial_record_witness(exe, h5)
    if wdiff:
        chk.violation("C12: initial-record witness", replay_text(wcfg, dict(h5save=1), "known finding initial-record: the "
                      "phase space stored under t=0 differs between SavePhaseSpace=0 and SavePhaseSpace=1"), tag="known",
                      key="initial-record")
    if wother:
        fails.append((wcfg, dict(h5save=1), wother))
    chk.cov["initial_record_witness"] = {"t0_records_differ": bool(wdiff)}
    for cfg, v, f in fails[:1]:
        chk.violation("C12 violated: " + f, replay_text(cfg, v, f), tag="oracle")
    if not ok and not fails:
        cfgs2, evals2, fails2 = explore(chk, exe, h5, 6, 8, "search")
        chk.cov["search"] = {"cases": evals2, "oracle_failures": len(fails2)}
        if fails2:
            cfg, v, f = fails2[0]
            chk.violation("C12 violated: %s; broken proof: %s" % (f, str(det.get("broken"))[:300]),
                          replay_text(cfg, v, f), tag="search")
        else:
            chk.violation("C12 no longer shown: proof obligation: " + str(det.get("broken"))[:400],
                          "# C12 no longer shown; no failing input found by the search\n# %s\n"
                          % str(det.get("broken")).replace("\n", "\n# "), tag="unproved", found_input=False)


def replay(chk, path):
    print(open(path).read())
