"""Program-option cases shared by C13 and C20."""
import math
import os
import re
import struct
import sys

sys.path.insert(0, os.path.dirname(os.path.dirname(os.path.abspath(__file__))))
import lib  # noqa
import cases as C  # noqa
from lib import f32, REPO  # noqa


def getter_map():
    """getter name (without 'get') -> member variable, from the header of /repo"""
    with open(os.path.join(REPO, "inc/IO/ProgramOptions.hpp")) as f:
        txt = f.read()
    m = {}
    for g, v in re.findall(r"inline\s+auto\s+get(\w+)\(\)\s*const\s*\{\s*return\s+(\w+);\s*\}", txt):
        m[g] = v
    return m


def option_table():
    """parse Gen/Options.lean back into python dicts (the table the model uses)"""
    p = os.path.join(lib.LEAN, "InovesaModel", "Gen", "Options.lean")
    with open(p) as f:
        txt = f.read()
    if "def cliGroups" not in txt:
        # the option table of the working tree could not be translated (the proof obligation is already reported as
        # broken): the SEARCH for a failing input still needs option names and types - take the last table that was
        # translated (the committed copy, generated from the unchanged tree)
        import subprocess
        q = subprocess.run(["git", "-C", lib.VERIF, "show", "HEAD:lean/InovesaModel/Gen/Options.lean"],
                           stdout=subprocess.PIPE, stderr=subprocess.DEVNULL, text=True)
        fb = os.path.join(lib.VERIF, "check", "props", "options_table.fallback")
        if q.returncode == 0 and "def cliGroups" in q.stdout:
            txt = q.stdout
        elif os.path.exists(fb):
            with open(fb) as f:
                txt = f.read()
        else:
            raise RuntimeError("option table neither translatable nor available from the last good translation")
    opts = []
    for m in re.finditer(r'\{ name := "([^"]*)", short := "([^"]*)", ty := \.(\w+), var := "([^"]*)", '
                         r'default := (none|some "([^"]*)"), implicit := (none|some "([^"]*)"), '
                         r'multitoken := (true|false), group := "([^"]*)" \}', txt):
        opts.append(dict(name=m.group(1), short=m.group(2), ty=m.group(3), var=m.group(4),
                         default=m.group(6) if m.group(5) != "none" else None,
                         implicit=m.group(8) if m.group(7) != "none" else None,
                         multitoken=m.group(9) == "true", group=m.group(10)))
    cli = re.search(r"def cliGroups : List String := \[(.*?)\]", txt).group(1)
    cfg = re.search(r"def cfgGroups : List String := \[(.*?)\]", txt).group(1)
    return opts, re.findall(r'"([^"]*)"', cli), re.findall(r'"([^"]*)"', cfg)


def dhex(x):
    return "%016x" % struct.unpack("<Q", struct.pack("<d", x))[0]


def tok_value(tok, ty):
    """canonical text (as the harness prints getters) of a source/default token of type ty"""
    kind = None
    if tok.startswith("f:") or tok.startswith("s:"):
        kind, tok = tok[0], tok[2:]
    if ty in ("f32",):
        v = f32(float(tok)) if kind == "f" else float(tok)
        return lib.f2h(f32(v))
    if ty == "f64":
        v = float(f32(float(tok))) if kind == "f" else float(tok)
        return dhex(v)
    if ty in ("u32", "i32", "i64", "u8"):
        return str(int(float(tok))) if kind is None and re.match(r"^-?\d+$", tok) else str(int(float(tok)))
    if ty == "bool":
        return "1" if tok.lower() in ("1", "true", "on", "yes") else "0"
    if ty == "str":
        return '"%s"' % tok
    raise ValueError(ty)


def parse_vars_line(line):
    """model `vars` line -> {var: (ty, [tokens])}"""
    d = {}
    for t in line.split()[1:]:
        k, v = t.split("=", 1)
        name, ty = k.split(":")
        d[name] = (ty, v.split(",") if v != "" else [""])
    return d


def parse_get_line(line):
    d = {}
    for t in line.split()[1:]:
        k, v = t.split("=", 1)
        d[k] = v
    return d


def compare_get(get, mvars, gmap):
    """impl getters vs model variables; returns None or text"""
    for g, val in get.items():
        var = gmap.get(g)
        if var is None:
            return "getter %s not found in the header" % g
        if var not in mvars:
            # never assigned in the model: only acceptable for string members (empty) and _hi etc.
            if val in ('""',):
                continue
            return "model has no value for %s (getter %s = %s)" % (var, g, val)
        ty, toks = mvars[var]
        if ty == "vecf32":
            want = ",".join(tok_value(t, "f32") for t in toks)
        else:
            want = tok_value(toks[0], ty)
        if want != val:
            return "getter %s (%s): implementation %s, model %s (tokens %s)" % (g, var, val, want, toks)
    return None


# ------------------------------------------------------------------ generation

def sample_value(rng, ty, digits=5):
    if ty in ("f32", "f64") and rng.random() < 0.12:
        return "0"          # an option given explicitly with the value zero is still GIVEN
    if ty == "f64" and rng.random() < 0.3:
        # a double that needs all 17 significant digits (what repr() of a computed value looks like in a scan script)
        return repr(rng.uniform(0.1, 9.9) * 10.0 ** rng.randint(-6, 6))
    if ty in ("f32", "f64", "vecf32"):
        mant = rng.randint(10 ** (digits - 1), 10 ** digits - 1)
        ex = rng.randint(-6, 6)
        s = "%d" % mant
        tok = s[0] + "." + s[1:] + "e%d" % ex
        # avoid tokens whose binary32 reading is sensitive to double rounding
        return tok
    if ty in ("u32", "u8"):
        return str(rng.randint(0, 5000))
    if ty in ("i32", "i64"):
        return str(rng.randint(-50, 5000))
    if ty == "bool":
        return rng.choice(["0", "1"])
    if ty == "str":
        return rng.choice(["out_%d.h5" % rng.randint(0, 99), "file%d.dat" % rng.randint(0, 9), "x.txt"])
    raise ValueError(ty)


ALIASES = {"RFVoltage": "AcceleratingVoltage", "SyncFreq": "SynchrotronFrequency", "steps": "StepsPerTs"}
NOT_ON_CLI_TEST = {"help", "copyright", "version", "buildinfo", "config", "cldev", "gui", "ForceOpenGLVersion"}


def gen_case(rng, cid, opts, cli_groups, cfg_groups, digits=5, save=False, allow_alias=True, p_opt=0.25):
    cli_desc = [o for g in cli_groups for o in opts if o["group"] == g]
    cfg_desc = [o for g in cfg_groups for o in opts if o["group"] == g]
    argv = []
    cfg = []
    chosen = {}
    names = sorted({o["name"] for o in cli_desc + cfg_desc} - NOT_ON_CLI_TEST)
    for name in names:
        if rng.random() > p_opt:
            continue
        oc = next((o for o in cli_desc if o["name"] == name), None)
        of = next((o for o in cfg_desc if o["name"] == name), None)
        o = oc or of
        if o["ty"] == "flag":
            continue
        where = rng.choice(["cli", "cfg", "both"])
        if name in ALIASES:
            where = "cfg"
            if not allow_alias:
                continue
        if oc is None:
            where = "cfg"
        if of is None:
            where = "cli"
        rec = {}
        if where in ("cli", "both"):
            if o["multitoken"]:
                vals = [sample_value(rng, o["ty"], digits) for _ in range(rng.randint(1, 3))]
                rec["cli"] = vals
                argv.append([("-" + oc["short"]) if oc["short"] and rng.random() < 0.5 else "--" + name] + vals)
            else:
                v = sample_value(rng, o["ty"], digits)
                rec["cli"] = [v]
                if oc["implicit"] is not None:
                    if v == "1" and rng.random() < 0.5:
                        argv.append(["--" + name])
                    else:
                        argv.append(["--%s=%s" % (name, v)])
                else:
                    form = rng.choice(["long", "eq", "short"]) if oc["short"] else rng.choice(["long", "eq"])
                    if v.startswith("-"):
                        form = "eq"
                    if form == "long":
                        argv.append(["--" + name, v])
                    elif form == "eq":
                        argv.append(["--%s=%s" % (name, v)])
                    else:
                        argv.append(["-" + oc["short"], v] if rng.random() < 0.5 else ["-" + oc["short"] + v])
        if where in ("cfg", "both"):
            if o["multitoken"]:
                vals = [sample_value(rng, o["ty"], digits) for _ in range(rng.randint(1, 3))]
                rec["cfg"] = vals
                cfg += ["%s=%s" % (name, v) for v in vals]
            else:
                v = sample_value(rng, o["ty"], digits)
                rec["cfg"] = [v]
                cfg.append("%s=%s" % (name, v))
        chosen[name] = rec
    rng.shuffle(argv)
    rng.shuffle(cfg)
    for name, r in chosen.items():      # multi-line vector options: the file order is what counts
        if "cfg" in r and len(r["cfg"]) > 1:
            r["cfg"] = [l.split("=", 1)[1] for l in cfg if l.startswith(name + "=")]
    flat = [t for a in argv for t in a]
    use_cfg = bool(cfg) or rng.random() < 0.3
    flat = (["--config", "@CFG@"] if use_cfg else ["--config", "/dev/null"]) + flat if rng.random() < 0.5 else \
        flat + (["--config", "@CFG@"] if use_cfg else ["--config", "/dev/null"])
    if not use_cfg:
        cfg = []
        for r in chosen.values():
            r.pop("cfg", None)
    text = "opts %s%s\nargv %s\n%srun\n" % (cid, " save" if save else "", " ".join(flat),
                                           ("cfg %s\n" % " ".join(cfg)) if use_cfg else "")
    return dict(id=cid, argv=flat, cfg=cfg, chosen=chosen, optext=text, save=save)


def case_lines(lines):
    """{'txt': [...], 'get': [...], 'vars': [...]} in order"""
    out = []
    for l in lines:
        t = l.split(" ", 1)
        out.append((t[0], l))
    return out
