"""C02 — whole-cell shifts are lossless; fractional shifts reproduce polynomials."""
import math
import os
import sys

sys.path.insert(0, os.path.dirname(os.path.dirname(os.path.abspath(__file__))))
import lib  # noqa
import cases as C  # noqa
import corr  # noqa
import kickcommon as K  # noqa
from lib import f32, f2h, h2f  # noqa

MODULES = ["InovesaModel.Props.C02", "InovesaModel.Props.TieKick"]
LEVEL = "proof"
U = 2.0 ** -24


def coeff_cases(rng, count):
    recs = []
    special = [0.0, h2f("00000001"), h2f("3f7fffff"), 0.5, 0.25, h2f("33800000"), h2f("3f000001")]
    for it in (1, 2, 3, 4):
        fs = special + [f32(rng.random()) for _ in range(count)] + \
             [h2f("%08x" % rng.randint(0, 0x3f7fffff)) for _ in range(count)]
        cid = "c%d" % it
        recs.append(dict(id=cid, it=it, fs=fs, data=[1.0],
                         optext="coeff %s %d\nextra %s\nrun\n" % (cid, it, " ".join(f2h(x) for x in fs))))
    return recs


def oracle_coeff(rec, lines):
    w = corr.floats_of(lines, "coeff")
    it = rec["it"]
    if w is None or len(w) != it * len(rec["fs"]):
        return "coefficient output missing"
    for i, f in enumerate(rec["fs"]):
        ws = w[i * it:(i + 1) * it]
        s = math.fsum(ws)
        a = math.fsum(abs(x) for x in ws)
        if not abs(s - 1.0) <= 4 * U * a:
            return "weights for f=%r (order %d) sum to %r" % (f, it, s)
        if f == 0.0:
            unit = [1.0 if j == (it - 1) // 2 else 0.0 for j in range(it)]
            if [abs(x) for x in ws] != unit or ws[(it - 1) // 2] != 1.0:
                return "weights at offset 0 (order %d) are %r, not a unit weight" % (it, ws)
    return None


def poly_cases(rng, count, sizes):
    """data = polynomial of degree < it along the kicked coordinate (different per line)."""
    recs = []
    for k in range(count):
        axis = rng.choice("xy")
        n = rng.choice([s for s in sizes if s >= 8])
        it = rng.choice([1, 2, 3, 4])
        nb = rng.choice([1, 2])
        amp = rng.choice([0.9, 2.5])
        off = C.offset_family(rng, n, nb, rng.choice(["frac", "affine", "smooth", "whole", "mixed", "nearwhole"]), amp)
        coef = {}
        data = [0.0] * (nb * n * n)
        for b in range(nb):
            for r in range(n):
                a = [rng.uniform(-1, 1) / (n ** d) for d in range(it)]
                coef[(b, r)] = a
                cells = K.line_cells(axis, n, b, r)
                for s in range(n):
                    data[cells[s]] = f32(sum(a[d] * s ** d for d in range(it)))
        cid = "p%d" % k
        recs.append(dict(id=cid, axis=axis, n=n, it=it, nb=nb, lb=nb - 1, off=off, data=data, coef=coef,
                         fam="poly", dfam="polyline", interior=False,
                         optext=C.kick_case(cid, axis, n, it, nb, -1, off, data)))
    return recs


def edge_poly_witness():
    """Lean counterexample `poly_repro_grid_full_false` on the implementation: n=4, linear
    interpolation, displacement +1.5 cells, constant data 1: destination 0 receives 1/2"""
    n, it = 4, 2
    off = [1.5] * n
    data = [1.0] * (n * n)
    coef = {(0, r): [1.0, 0.0] for r in range(n)}
    return dict(id="pedge", axis="y", n=n, it=it, nb=1, lb=0, off=off, data=data, coef=coef, fam="witness",
                dfam="polyline", interior=False, optext=C.kick_case("pedge", "y", n, it, 1, -1, off, data))


def oracle_poly(rec, lines):
    out = corr.floats_of(lines, "out")
    if out is None:
        return "no output"
    n, it, nb, axis = rec["n"], rec["it"], rec["nb"], rec["axis"]
    for b in range(nb):
        for r in range(n):
            row = (b * n + r) if axis == "y" else r
            sp = K.split_off(n, rec["off"][row])
            if sp is None or sp[0] >= n:
                continue
            jd, fr = sp
            D = jd - n // 2
            a = rec["coef"][(b, r)]
            cells = K.line_cells(axis, n, b, r)
            for y in range(n):
                lo = y + D - (it - 1) // 2
                hi = lo + it - 1
                if lo < 0 or hi >= n:
                    continue
                t = y + D + fr
                want = sum(a[d] * t ** d for d in range(it))
                scale = sum(abs(a[d]) * (n ** d) for d in range(it)) * 1.5
                if not abs(out[cells[y]] - want) <= 64 * U * scale + 1e-30:
                    if not K.stencil_in(n, it, jd):
                        rec["table_edge"] = True
                    return "order %d: polynomial of degree %d not reproduced at line (%d,%d) cell %d: %r vs %r" % (
                        it, it - 1, b, r, y, out[cells[y]], want)
    return None


def oracle_whole(rec, lines):
    """whole-cell displacement: bit-for-bit shifted copy, zeros flowing in"""
    if rec["fam"] not in ("whole", "wholerow"):
        return None
    out = corr.floats_of(lines, "out")
    if out is None:
        return "no output"
    n, nb, axis = rec["n"], rec["nb"], rec["axis"]
    for b in range(nb):
        for r in range(n):
            row = (min(b, rec["lb"]) * n + r) if axis == "y" else r
            d = rec["off"][row]
            if d != math.floor(d):
                return None
            D = int(d)
            cells = K.line_cells(axis, n, b, r)
            for y in range(n):
                s = y + D
                want = rec["data"][cells[s]] if 0 <= s < n else 0.0
                got = out[cells[y]]
                if got != want:
                    return "whole-cell shift by %d: cell %d of line (%d,%d) is %r, expected %r" % (
                        D, y, b, r, got, want)
    return None


def explore(chk, harness, nk, npoly, ncoef, sizes, tag):
    rng = lib.Rng(chk.seed, "C02/" + tag)
    crecs = coeff_cases(rng, ncoef)
    krecs = K.gen_kick_cases(rng, nk, sizes, fams=["whole", "wholerow", "frac", "mixed", "nearwhole"], want_parts=False)
    precs = poly_cases(rng, npoly, sizes) + ([edge_poly_witness()] if tag == "main" else [])
    optexts = {r["id"]: r["optext"] for r in crecs + krecs + precs}
    A, B, mism, drift, san = corr.run_correspondence(chk, harness, optexts, tag)
    fails = []
    for r in crecs:
        f = oracle_coeff(r, A.get(r["id"], []))
        if f:
            fails.append((r, f))
    for r in krecs:
        f = oracle_whole(r, A.get(r["id"], []))
        if f:
            fails.append((r, f))
    for r in precs:
        f = oracle_poly(r, A.get(r["id"], []))
        if f:
            fails.append((r, f))
    return crecs, krecs, precs, optexts, mism, drift, san, fails


def sweep(chk):
    """all 2^30 binary32 fractional offsets in [0,1), four orders (C++, 16 threads)"""
    h = lib.build_harness("ivharness", "plain")
    txt = "".join("coeffsweep s%d %d 0 1065353215 1\nrun\n" % (it, it) for it in (1, 2, 3, 4))
    path = os.path.join(lib.CACHE, "sweep_%d.txt" % os.getpid())
    with open(path, "w") as f:
        f.write(txt)
    import subprocess
    p = subprocess.run([h, path], stdout=subprocess.PIPE, stderr=subprocess.PIPE, text=True, env=C.harness_env())
    os.remove(path)
    res = {}
    for cid, lines in C.split_cases(p.stdout.split("\n")).items():
        t = lines[0].split()
        res[cid] = dict(evaluated=int(t[1]), bad=int(t[2]), first_bad_bits=int(t[3]), worst_milli_u=int(t[4]))
    return res


def run(chk):
    ok, det = lib.prove(chk, MODULES, min_examples=1)
    harness = lib.build_harness()
    quick = chk.tier == "quick"
    sizes = [4, 5, 8, 16, 17, 24] if quick else [4, 5, 8, 9, 16, 17, 24, 32, 33, 64]
    nk, npoly, ncoef = (100, 60, 400) if quick else (2000, 1500, 20000)
    crecs, krecs, precs, optexts, mism, drift, san, fails = explore(chk, harness, nk, npoly, ncoef, sizes, "main")
    allrecs = crecs + krecs + precs
    chk.cov["evaluations"] = len(krecs) + len(precs) + sum(len(r["fs"]) for r in crecs)
    chk.cov["distinct_nontrivial"] = len({r["optext"] for r in krecs + precs}) + \
        len({(r["it"], f) for r in crecs for f in r["fs"]})
    chk.cov["rule"] = ("coefficient cases: special + random binary32 f in [0,1) per order; kick cases with "
                       "whole-cell / fractional offsets; polynomial lines of degree < order; distinct = distinct "
                       "op text / distinct (order, f)")
    chk.cov["distribution"] = K.distribution(krecs + precs)
    chk.cov["correspondence"] = {"cases": len(allrecs), "mismatches": len(mism), "bitwise_drift": drift,
                                 "coefficient_values_bitwise": sum(len(r["fs"]) for r in crecs)}
    chk.cov["samples"] = [{"case": precs[0]["optext"][:300]},
                          {"theorem": "Inovesa.Props.C02.poly_repro: sum_j w_j(f) P(j-(it-1)/2) = P(f), deg P < it, all f, any field of char 0"},
                          {"theorem": "Inovesa.Props.C02.shift_whole_cell / coeff_sum_one / coeff_at_zero / poly_repro_grid"}]
    chk.assumptions += [
        "real-arithmetic semantics; the bit-for-bit clause for whole-cell shifts follows from the exact theorem plus the IEEE facts 1*x=x, 0*x=+-0, x+(+-0)=x for finite x (trusted), and is tested bitwise on the implementation",
        "Gen/Coeff.lean regenerated from SourceMap::calcCoefficiants on every run and compared bitwise with the C++ on the sampled f",
    ]
    if not quick:
        sw = sweep(chk)
        chk.cov["full_float_sweep"] = sw
        for cid, r in sw.items():
            chk.cov["evaluations"] += r["evaluated"]
            if r["bad"]:
                fails.append((dict(id=cid, optext="coeff %s %s\nextra %08x\nrun\n" % (cid, cid[1:], r["first_bad_bits"]),
                                   data=[1.0]),
                              "order %s: %d of 2^30 fractional offsets have weights not summing to 1 within 4u*sum|w|; first f bits %08x"
                              % (cid[1:], r["bad"], r["first_bad_bits"])))
        chk.cov["exhaustive"] = True
    if san:
        chk.violation("sanitizer/abort in the implementation: " + san[:300],
                      "# harness aborted\n" + san + "\n" + "".join(optexts.values())[:200000], tag="sanitizer")
    kept = []
    for r, f in fails:
        if r.get("table_edge") and chk.known_match("kick-table-edge"):
            chk.violation(f, "", key="kick-table-edge")
        else:
            kept.append((r, f))
    fails = kept
    for r, f in fails[:1]:
        chk.violation("C02 violated: " + f, "# C02 oracle failure: %s\n%s" % (f, r["optext"]), tag="oracle_" + r["id"])
    broken = []
    if not ok:
        broken.append("proof obligation: " + str(det.get("broken"))[:1500])
    if mism:
        broken.append("correspondence (model vs implementation): case %s: %s" % mism[0])
    if broken and not fails and not san:
        crecs2, krecs2, precs2, opt2, mism2, drift2, san2, fails2 = explore(
            chk, harness, 800, 800, 5000, [4, 5, 8, 16, 17, 24, 32], "search")
        chk.cov["search"] = {"cases": len(krecs2) + len(precs2), "oracle_failures": len(fails2)}
        fails2 = [(r, f) for r, f in fails2 if not (r.get("table_edge") and chk.known_match("kick-table-edge"))]
        if fails2:
            r, f = fails2[0]
            chk.violation("C02 violated: %s; broken: %s" % (f, broken[0][:300]),
                          "# C02 oracle failure found by search: %s\n# broken: %s\n%s"
                          % (f, "\n# ".join(b.replace("\n", "\n# ") for b in broken), r["optext"]), tag="search_" + r["id"])
        else:
            byid = {r["id"]: r for r in allrecs}
            txt = "# C02 no longer shown; no failing input found by the search\n# %s\n" % (
                "\n# ".join(b.replace("\n", "\n# ") for b in broken))
            if mism and mism[0][0] in byid:
                txt += "# first differing correspondence case follows\n" + byid[mism[0][0]]["optext"]
            chk.violation("C02 no longer shown: " + broken[0][:400], txt, tag="unproved", found_input=False)


def replay(chk, path):
    harness = lib.build_harness()
    with open(path) as f:
        txt = f.read()
    a, b, rc, err, rc2, err2 = C.run_both(harness, txt, "replay")
    print("\n".join(a[:50]))
    chk.cov["evaluations"] = len(C.split_cases(a))
