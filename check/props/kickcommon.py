"""Case generation and oracles for KickMap-based properties (C01, C02, C08, C15)."""
import math
import os
import sys

sys.path.insert(0, os.path.dirname(os.path.dirname(os.path.abspath(__file__))))
import lib  # noqa
import cases as C  # noqa
import corr  # noqa
from lib import f32, f2h, h2f  # noqa

U = 2.0 ** -24
OFF_FAMS = ["whole", "wholerow", "frac", "affine", "smooth", "far", "mixed", "nearwhole"]
DATA_FAMS = ["impulse", "poly", "gauss", "noise"]


def split_off(n, off):
    """(jd, frac) as updateSM computes them in binary32; None if the cast is undefined."""
    poffs = f32(float(n // 2) + off)
    if math.isnan(poffs) or math.isinf(poffs):
        return None
    ip = math.floor(poffs) if poffs >= 0 else math.ceil(poffs)
    if ip <= -1 or ip >= 2 ** 32:
        return None
    return int(ip), f32(poffs - ip)


def line_cells(axis, n, b, r):
    """flat indices of the cells of line r of bunch b, in order of the kicked coordinate"""
    if axis == "y":
        return [b * n * n + r * n + s for s in range(n)]
    return [b * n * n + s * n + r for s in range(n)]


def stencil_in(n, it, jd):
    """table indices jd+j-(it-1)/2 (j<it) all inside [0,n): updateSM keeps every weight"""
    return (it - 1) // 2 <= jd and jd + (it - 1) - (it - 1) // 2 < n


def touches_table_edge(axis, n, it, nb, lb, off, data):
    """some line with non-zero data is transported with a row whose stencil leaves the table
    (known finding kick-table-edge: such rows lose weights)"""
    for b in range(nb):
        for r in range(n):
            row = (min(b, lb) * n + r) if axis == "y" else r
            sp = split_off(n, off[row])
            if sp is None:
                continue
            cells = line_cells(axis, n, b, r)
            if any(data[c] != 0.0 for c in cells) and sp[0] < n and not stencil_in(n, it, sp[0]):
                return True
    return False


def is_interior(axis, n, it, nb, lb, off, data):
    for b in range(nb):
        for r in range(n):
            row = (min(b, lb) * n + r) if axis == "y" else r
            sp = split_off(n, off[row])
            cells = line_cells(axis, n, b, r)
            nz = [s for s in range(n) if data[cells[s]] != 0.0]
            if not nz:
                continue
            if sp is None:
                return False
            jd, _ = sp
            if jd >= n:
                return False
            D = jd - n // 2
            for s in nz:
                for j in range(it):
                    d = s - D - j + (it - 1) // 2
                    if d < 0 or d >= n:
                        return False
    return True


def defined(n, off):
    return all(split_off(n, o) is not None for o in off)


def gen_kick_cases(rng, count, sizes, nbs=(1, 2, 3), prefix="k", want_parts=True,
                   fams=OFF_FAMS, dfams=DATA_FAMS):
    """list of dict(id, axis, n, it, nb, lb, off, data, parts, fam, dfam, interior, optext)"""
    out = []
    for k in range(count):
        axis = rng.choice("xy")
        n = rng.choice(sizes)
        it = rng.choice([1, 2, 3, 4])
        nb = rng.choice(nbs)
        fam = fams[k % len(fams)]
        dfam = rng.choice(dfams)
        amp = rng.choice([0.9, 2.5, 4.0]) if n >= 12 else rng.choice([0.9, 1.5])
        margin = int(math.ceil(amp)) + 3 if rng.random() < 0.8 else 0
        if n < 2 * margin + 2:
            margin = max(0, (n - 2) // 2 - 1)
        lb = nb - 1
        if axis == "y" and nb > 1 and rng.random() < 0.3:
            lb = rng.randint(0, nb - 1)
        off = C.offset_family(rng, n, nb, fam, amp)
        if not defined(n, off):
            off = [max(o, -float(n // 2)) for o in off]
        data = C.data_family(rng, n, nb, dfam, margin)
        parts = None
        if want_parts:
            parts = [(f32(rng.uniform(0, n - 1)), f32(rng.uniform(0, n - 1))) for _ in range(4)]
            parts += [(0.0, 0.0), (float(n - 1), float(n - 1)), (float(n - 1), 0.0)]
        cid = "%s%d" % (prefix, k)
        rec = dict(id=cid, axis=axis, n=n, it=it, nb=nb, lb=lb, off=off, data=data, parts=parts,
                   fam=fam, dfam=dfam)
        rec["interior"] = is_interior(axis, n, it, nb, lb, off, data)
        rec["table_edge"] = touches_table_edge(axis, n, it, nb, lb, off, data)
        # every third case: the map has a past - an earlier displacement field (fractional rows, rows thrown out of the grid,
        # NaN) was installed and applied first; every fourth: the interpolation-clamp switch is on (the CPU path ignores it)
        off0 = None
        if k % 3 == 1:
            off0 = [rng.choice([f32(rng.uniform(-amp, amp)), f32(rng.uniform(-amp, amp)), float(n), -float(n), float("nan"),
                                f32(n / 2 - 0.5), 0.0]) for _ in range(n * nb)]
        rec["history"] = off0 is not None
        rec["clamp"] = 1 if k % 4 == 2 else 0
        rec["optext"] = C.kick_case(cid, axis, n, it, nb, lb if axis == "y" else -1, off, data, parts, clamp=rec["clamp"], off0=off0)
        out.append(rec)
    return out


def table_edge_witness():
    """the Lean counterexample `kick_line_conserves_full_false` as an implementation case:
    n=4, linear interpolation, displacement +1.5 cells (jd=3, xip=1/2), unit impulse at cell 2 of
    line 0: support before (cell 2) and after (cells 0,1) inside the grid, half the charge is lost"""
    n, it, nb = 4, 2, 1
    off = [1.5] * n
    data = [0.0] * (n * n)
    data[0 * n + 2] = 1.0
    rec = dict(id="kedge", axis="y", n=n, it=it, nb=nb, lb=0, off=off, data=data, parts=None,
               fam="witness", dfam="impulse")
    rec["interior"] = is_interior("y", n, it, nb, 0, off, data)
    rec["table_edge"] = touches_table_edge("y", n, it, nb, 0, off, data)
    rec["optext"] = C.kick_case("kedge", "y", n, it, nb, -1, off, data, None)
    return rec


def conservation_budget(rec):
    s = sum(abs(x) for x in rec["data"])
    return (rec["it"] + 4) * 4 * U * 1.5 * s + 1e-30


def oracle_conservation(rec, lines):
    """C01 oracle on the implementation's output; returns None or a failure text."""
    out = corr.floats_of(lines, "out")
    if out is None:
        return "no output"
    if not rec["interior"]:
        return None
    n, nb = rec["n"], rec["nb"]
    bud = conservation_budget(rec)
    tin, tout = math.fsum(rec["data"]), math.fsum(out)
    if not abs(tout - tin) <= bud:
        return "total charge %r -> %r (defect %g, budget %g)" % (tin, tout, tout - tin, bud)
    for b in range(nb):
        a = math.fsum(rec["data"][b * n * n:(b + 1) * n * n])
        o = math.fsum(out[b * n * n:(b + 1) * n * n])
        if not abs(o - a) <= bud:
            return "bunch %d charge %r -> %r (defect %g, budget %g)" % (b, a, o, o - a, bud)
    return None


def distribution(recs):
    d = {}
    for r in recs:
        for key in ("axis", "n", "it", "nb", "fam", "dfam"):
            k = "%s=%s" % (key, r[key])
            d[k] = d.get(k, 0) + 1
        k = "interior=%s" % r.get("interior")
        d[k] = d.get(k, 0) + 1
    return d
