"""C05 — the stationary bunch satisfies the Haissinski equation with its own wake (PARTIAL).

Theorems (lean/InovesaModel/Props/C05.lean): order and data flow of one iteration of the GENERATED main loop
(wake of the current profile -> wake kick -> RF kick -> drift -> Fokker-Planck; recorded wake = applied wake),
exact first-moment balance of a stationary state (tan(dtheta) <q> = <W>), and the continuous statement
(product of a Haissinski density and the unit Gaussian is stationary for the Vlasov-Fokker-Planck equation with the
code's sign conventions, and only such a product is).  That the iteration converges, and how far the discrete
stationary state is from the continuous one, is measured here on long runs of the real program.
"""
import math
import os
import shutil
import sys

import numpy as np

sys.path.insert(0, os.path.dirname(os.path.dirname(os.path.abspath(__file__))))
import lib  # noqa
import prog  # noqa
import progcommon as P  # noqa
from lib import f32  # noqa

MODULES = ["InovesaModel.Props.C05", "InovesaModel.Props.TieMain", "InovesaModel.Props.TieRF", "InovesaModel.Props.TieDrift", "InovesaModel.Props.TieEF", "InovesaModel.Props.TiePhysics", "InovesaModel.Props.TieWake"]
LEVEL = "proof"


def sync_freq(V=1e6):
    """f_s of the default machine (at RF voltage V) as main() computes it"""
    e, eps0, me, c = 1.602e-19, 8.854187817e-12, 510998.9, 2.99792458e8
    f0, E0, H = float(f32(9e6)), 1.3e9, 50.0
    alpha0 = float(f32(4e-3))
    R = c / (2 * math.pi * f0)
    V0 = e * (E0 / me) ** 4 / (3 * eps0 * R)
    Veff = math.sqrt(V * V - V0 * V0)
    return f0 * math.sqrt(alpha0 * H * Veff / (2 * math.pi * E0))


# (impedance, arguments, currents giving a potential-well distortion from mild to order one while staying stable)
IMPEDANCES = {
    "wall": (["-G", "0.03", "--UseCSR", "0", "--WallConductivity", "3.5e7"], [0.01, 0.02, 0.04, 0.06]),
    "res": (["-G", "0", "-Z", "res.dat"], [0.0002, 0.0004, 0.0008]),
    "pp": (["-G", "0.03"], [0.0005, 0.001, 0.002]),
}


def gen(rng, count, quick):
    recs = []
    kinds = ["wall", "res", "pp"]
    for k in range(count):
        imp = kinds[k % 3]
        n = rng.choice([64, 80] if quick else [64, 80, 96, 128])
        N = rng.choice([100, 120] if quick else [100, 120, 150, 200])
        td = rng.choice([2.5, 3.0] if quick else [2.5, 3.0, 4.0])
        # the explicit Fokker-Planck step is stable only for e1/delta^2 well below 1/2 (e1 = 2/(td*N), delta = 12/(n-1)):
        # a limit of the scheme the user has to respect, not judged here
        while 2.0 / (td * N) / (12.0 / (n - 1)) ** 2 > 0.3:
            if N < 200:
                N = {100: 120, 120: 150, 150: 200}[N]
            elif td < 4.0:
                td = 4.0
            else:
                n = {128: 96, 96: 80, 80: 64}[n]
        cfg = dict(imp=imp, n=n, N=N, td=td, T=int(math.ceil(13 * td)), I=rng.choice(IMPEDANCES[imp][1]),
                   zoom=rng.choice([0.8, 1.0, 1.25]), shx=rng.choice([0, 0, 2, -3]), shy=rng.choice([0, 0, 1, -2]),
                   R=rng.choice([500.0, 1000.0]) if imp == "res" else None,
                   it=rng.choice([3, 4]), dt=rng.choice([3, 4]))
        if imp == "res" and cfg["R"] == 500.0:
            cfg["I"] *= 2
        if k % 6 == 4:
            # two filled buckets with different currents (and an empty one between them in half of the cases): each bunch
            # must be in equilibrium with the wake IT sees and that the file records for it
            i0 = cfg["I"]
            cfg["cur"] = [i0, 0.0, 0.4 * i0] if rng.random() < 0.5 else [0.4 * i0, i0]
        if k % 6 == 3:
            # a low RF voltage: the radiation loss per turn is a sizeable part of it (synchronous phase near 25 degrees);
            # rotation angle, bunch length and RF kick must all be derived from the same effective voltage
            cfg.update(volt=1.1e5, imp="wall", I=rng.choice([0.01, 0.02]), cur=None)
            cfg.pop("cur")
        if k % 6 == 1:
            # many steps per period on a coarse grid with a mild current: the wake kick of ONE step is below 1e-3 cell
            # everywhere, only the sum over a period balances the RF focusing
            cfg.update(n=64, N=3000 if quick else rng.choice([3000, 4000]), td=3.0, T=14, I=IMPEDANCES[imp][1][0], dt=4, it=4)
        recs.append(cfg)
    return recs


def args_of(cfg):
    a = list(prog.BASE_ARGS) + ["-s", str(cfg["n"]), "-N", str(cfg["N"]), "-T", str(cfg["T"]), "-n", str(cfg["N"]),
                                "-d", repr(cfg["td"] / sync_freq(cfg.get("volt", 1e6))), "--InitialDistZoom", repr(cfg["zoom"]),
                                "--PhaseSpaceShiftX", str(cfg["shx"]), "--PhaseSpaceShiftY", str(cfg["shy"]),
                                "--InterpolationPoints", str(cfg["it"]), "--derivation", str(cfg["dt"]), "-o", "a.h5"]
    a += ["-I"] + [repr(c) for c in cfg.get("cur", [cfg["I"]])]
    if cfg.get("volt"):
        a += ["-V", repr(cfg["volt"])]
    return a + IMPEDANCES[cfg["imp"]][0]


def evaluate(cfg, D):
    """(verdict, details) over all bunches of the run"""
    nbun = sum(1 for c in cfg.get("cur", [cfg["I"]]) if c > 0)
    worst = (None, {})
    for b in range(nbun):
        v, d = evaluate_bunch(cfg, D, b, nbun)
        if v and not v.startswith("skip:"):
            return ("bunch %d of %d: %s" % (b, nbun, v) if nbun > 1 else v), d
        if v or worst[0] is None and not worst[1]:
            worst = (v, d)
    return worst


def evaluate_bunch(cfg, D, b, nbun):
    """verdict None = holds, 'skip:<why>' = not stationary / not judged, else failure text"""
    ds = D["dsets"]
    n, N = cfg["n"], cfg["N"]
    z = np.array(prog.fvals(ds["/Info/AxisValues_z"]))
    bp = np.array(prog.fvals(ds["/BunchProfile/data"])).reshape(-1, nbun, n)[:, b, :]
    wk = np.array(prog.fvals(ds["/WakePotential/data"])).reshape(-1, nbun, n)[:, b, :]
    ln = prog.fvals(ds["/BunchLength/data"])[b::nbun]
    sp = prog.fvals(ds["/EnergySpread/data"])[b::nbun]
    pos = prog.fvals(ds["/BunchPosition/data"])[b::nbun]
    if len(ln) < 6:
        return "skip:short", {}
    # stationarity of the recorded series (one record per synchrotron period)
    drift = max(abs(ln[-1] - ln[-4]), abs(sp[-1] - sp[-4]), abs(pos[-1] - pos[-4]))
    det = dict(length=ln[-1], spread=sp[-1], position=pos[-1], drift=drift)
    if not all(math.isfinite(v) for v in (ln[-1], sp[-1], pos[-1])):
        return "run ended with non-finite moments (length %r, spread %r)" % (ln[-1], sp[-1]), det
    if drift > 2e-3:
        return "skip:not-stationary", det
    dth = 2 * math.pi / N
    dq = z[1] - z[0]
    rho = bp[-1]
    W = wk[-1] * dq                      # recorded in energy cells per step -> natural energy units per step
    core = rho > 0.05 * rho.max()
    intW = (np.cumsum(W) - 0.5 * W - 0.5 * W[0]) * dq      # trapezoid
    # natural variance of the discrete Fokker-Planck operator (theorem C04.second_moment_closed_form: the fixed
    # point of the 3-point stencil is 1 - delta^2/2, of the 4-point stencil 1)
    var0 = 1.0 - dq * dq / 2 if cfg["dt"] == 3 else 1.0
    pwd = intW[core] / dth / var0
    rng_pwd = float(pwd.max() - pwd.min())
    res = np.log(rho[core]) + z[core] ** 2 / (2 * var0) - pwd
    resid = float(res.max() - res.min())
    det.update(pwd_range=rng_pwd, residual=resid)
    if abs(sp[-1] - math.sqrt(var0)) > 6e-3:
        return ("energy spread of the stationary state is %.5f, the operator's natural spread is %.5f (potential-well term %.3f)"
                % (sp[-1], math.sqrt(var0), rng_pwd)), det
    tol = 0.12 * rng_pwd + 0.02 * (64.0 / n) ** 2 + 0.02
    if resid > tol:
        wrong = np.log(rho[core]) + z[core] ** 2 / (2 * var0) + pwd
        return ("ln rho + q^2/2 - (1/dtheta) int W varies by %.4f over the core (potential-well term spans %.4f, allowed %.4f; "
                "with the opposite sign of W: %.4f)" % (resid, rng_pwd, tol, float(wrong.max() - wrong.min()))), det
    mw = float((rho * W).sum() / rho.sum())
    mq = float((rho * z).sum() / rho.sum())
    bal = math.tan(dth) * mq
    det.update(mean_wake=mw, rf_force=bal)
    if abs(bal - mw) > 3e-3 * abs(mw) + 2e-6:
        return "first-moment balance: tan(dtheta)*<q> = %.6g but <W> = %.6g (recorded wake vs. RF focusing)" % (bal, mw), det
    if rng_pwd < 0.02:
        return "skip:no-distortion", det
    return None, det


def run_one(exe, h5, cfg):
    d = prog.scratch()
    try:
        if cfg["imp"] == "res":
            with open(os.path.join(d, "res.dat"), "w") as f:
                for i in range(8192):
                    f.write("%d %r 0.0\n" % (i, cfg["R"]))
        r = prog.run_inovesa(exe, args_of(cfg), d, timeout=1800)
        if r.rc != 0 or not os.path.exists(os.path.join(d, "a.h5")):
            return "run failed: %s" % (r.err or r.out)[-200:], {}
        D = prog.dump(h5, os.path.join(d, "a.h5"))
        return evaluate(cfg, D)
    finally:
        shutil.rmtree(d, ignore_errors=True)


def explore(chk, exe, h5, count, quick, tag, workers=6):
    from concurrent.futures import ThreadPoolExecutor
    rng = lib.Rng(chk.seed, "C05/" + tag)
    cfgs = gen(rng, count, quick)
    with ThreadPoolExecutor(workers) as ex:
        out = list(ex.map(lambda c: run_one(exe, h5, c), cfgs))
    fails = [(c, v, d) for c, (v, d) in zip(cfgs, out) if v and not v.startswith("skip:")]
    skipped = [(c, v) for c, (v, d) in zip(cfgs, out) if v and v.startswith("skip:")]
    judged = [(c, d) for c, (v, d) in zip(cfgs, out) if v is None]
    return cfgs, fails, skipped, judged


def replay_text(cfg, what):
    return ("# C05: %s\n# configuration: %r\n# (for imp=res the file res.dat holds 8192 rows `i R 0`)\n"
            "inovesa %s\n# then evaluate the last records as check/props/c05.py:evaluate does\n" % (what, cfg, " ".join(args_of(cfg))))


def run(chk):
    ok, det = lib.prove(chk, MODULES, min_examples=2)
    exe = lib.build_inovesa("plain")
    h5 = lib.build_h5dump()
    quick = chk.tier == "quick"
    cfgs, fails, skipped, judged = explore(chk, exe, h5, 6 if quick else 72, quick, "main", workers=6 if quick else 14)
    chk.cov["evaluations"] = len(cfgs)
    chk.cov["distinct_nontrivial"] = len(judged)
    chk.cov["rule"] = ("runs of the real program to stationarity (13 damping times; damping time 2.5-4 synchrotron periods) with "
                       "resistive (file), resistive-wall and parallel-plates impedances at currents giving potential-well terms "
                       "0.05..1.5, grids 64..128, 100..200 steps per period, shifted grids, zoomed starts, both interpolation and "
                       "derivative orders; judged only if the recorded series is stationary: energy spread 1, Haissinski residual "
                       "over the core within 12% of the potential-well term + discretisation allowance, exact first-moment balance")
    chk.cov["judged"] = len(judged)
    chk.cov["skipped"] = {}
    for c, v in skipped:
        chk.cov["skipped"][v] = chk.cov["skipped"].get(v, 0) + 1
    d = {}
    for c in cfgs:
        for key in ("imp", "n", "N", "td"):
            d["%s=%s" % (key, c[key])] = d.get("%s=%s" % (key, c[key]), 0) + 1
    chk.cov["distribution"] = d
    chk.cov["samples"] = [{"config": repr(c), "measured": {k: (round(v, 6) if isinstance(v, float) else v) for k, v in dd.items()}}
                          for c, dd in judged[:3]]
    chk.cov["samples"].append({"theorem": "Inovesa.Props.C05: step_is_wake_rf_drift_fp, profile_is_current, recorded_wake_is_applied, "
                                          "stationary_moments, haissinski_is_stationary, stationary_only_haissinski, haissinski_relation"})
    chk.assumptions += [
        "PARTIAL: convergence of the iteration to a stationary state and the discretisation error of that state are measured, not proved; "
        "the theorems give the order/data flow of the generated loop, the exact moment balance and the continuous Haissinski statement",
        "configurations that do not become stationary within the run (instability above threshold) are not judged",
    ]
    if len(judged) == 0 and not fails:
        fails = [(cfgs[0], "no run reached a judged stationary state (%r)" % chk.cov["skipped"], {})]
    for c, v, dd in fails[:1]:
        chk.violation("C05 violated: %s [%s n=%d N=%d I=%g]" % (v, c["imp"], c["n"], c["N"], c["I"]), replay_text(c, v), tag="oracle")
    if not ok and not fails:
        cfgs2, fails2, sk2, j2 = explore(chk, exe, h5, 24, False, "search", workers=12)
        chk.cov["search"] = {"cases": len(cfgs2), "oracle_failures": len(fails2)}
        if fails2:
            c, v, dd = fails2[0]
            chk.violation("C05 violated: %s; broken proof: %s" % (v, str(det.get("broken"))[:300]), replay_text(c, v), tag="search")
        else:
            chk.violation("C05 no longer shown: proof obligation: " + str(det.get("broken"))[:400],
                          "# C05 no longer shown; no failing input found by the search\n# %s\n"
                          % str(det.get("broken")).replace("\n", "\n# "), tag="unproved", found_input=False)


def replay(chk, path):
    print(open(path).read())
