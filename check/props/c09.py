"""C09 — normalisation restores each bunch's charge share; moments are the true moments."""
import math
import os
import sys

sys.path.insert(0, os.path.dirname(os.path.dirname(os.path.abspath(__file__))))
import lib  # noqa
import cases as C  # noqa
import corr  # noqa
from lib import f32, f2h, h2f  # noqa

MODULES = ["InovesaModel.Props.C09", "InovesaModel.Props.TieMoments", "InovesaModel.Props.TieRuler", "InovesaModel.Props.TiePS"]
LEVEL = "proof"
U = 2.0 ** -24
OPS = ["x", "y", "i", "n", "N", "a0", "a1", "v0", "v1", "c", "p", "D", "D"]


def psg_case(cid, n, nb, box, zoom, fset, seq):
    return "psg %s %d %d\nextra %s\noff %s\nops %s\nrun\n" % (
        cid, n, nb, " ".join(f2h(x) for x in list(box) + [zoom]), " ".join(f2h(x) for x in fset), " ".join(seq))


def ps_case(cid, n, nb, box, fset, data, seq):
    return "ps %s %d %d\nextra %s\noff %s\ndata %s\nops %s\nrun\n" % (
        cid, n, nb, " ".join(f2h(x) for x in box), " ".join(f2h(x) for x in fset),
        " ".join(f2h(x) for x in data), " ".join(seq))


def filling(rng, nb):
    w = [rng.random() + 0.05 for _ in range(nb)]
    if nb > 1 and rng.random() < 0.35:
        w[rng.randrange(nb)] = 0.0
    s = sum(w)
    fs = [f32(x / s) for x in w]
    return fs


def gauss_data(n, nb, box, params):
    """params[b] = list of (amp, mq, sq, mp, sp) in physical units"""
    qmin, qmax, pmin, pmax = box
    dq = (qmax - qmin) / (n - 1)
    dp = (pmax - pmin) / (n - 1)
    data = []
    for b in range(nb):
        for x in range(n):
            q = qmin + x * dq
            for y in range(n):
                p = pmin + y * dp
                v = 0.0
                for amp, mq, sq, mp, sp in params[b]:
                    v += amp * math.exp(-0.5 * ((q - mq) / sq) ** 2 - 0.5 * ((p - mp) / sp) ** 2)
                data.append(f32(v))
    return data


def parse_vals(lines, n, nb):
    """list of dict per 'p' print"""
    res = []
    cur_out = None
    for l in lines:
        t = l.split()
        if t[0] == "out":
            cur_out = t[1:]
        elif t[0] == "vals":
            v = [h2f(x) for x in t[1:]]
            hx = t[1:]
            o = 0
            d = {"data": cur_out}
            d["proj0"] = hx[o:o + nb * n]; o += nb * n
            d["proj1"] = hx[o:o + nb * n]; o += nb * n
            d["filling"] = v[o:o + nb]; d["filling_hex"] = hx[o:o + nb]; o += nb
            d["integral"] = v[o]; d["integral_hex"] = hx[o]; o += 1
            d["mean"] = v[o:o + 2 * nb]; d["mean_hex"] = hx[o:o + 2 * nb]; o += 2 * nb
            d["var"] = v[o:o + 2 * nb]; d["var_hex"] = hx[o:o + 2 * nb]; o += 2 * nb
            d["rms"] = v[o:o + 2 * nb]; d["rms_hex"] = hx[o:o + 2 * nb]; o += 2 * nb
            res.append(d)
    return res


def gen(rng, count, sizes):
    recs = []
    for k in range(count):
        kind = ["random", "norm", "gauss", "frame", "copy", "start"][k % 6]
        n = rng.choice(sizes)
        nb = rng.choice([1, 2, 3, 5])
        shx, shy = rng.uniform(-1.5, 1.5), rng.uniform(-1.5, 1.5)
        box = [f32(-6 + shx), f32(6 + shx), f32(-6 + shy), f32(6 + shy)]
        fset = filling(rng, nb)
        cid = "s%d" % k
        rec = dict(id=cid, kind=kind, n=n, nb=nb, box=box, fset=fset)
        if kind == "start":
            # the constructor's own Gaussian start distribution of width `zoom` (gaus + createFromProjections):
            # every bunch must hold its set share, be centred at 0 and have width zoom
            n = max(n, 32) + rng.choice([0, 1])
            zoom = f32(rng.choice([0.5, 0.75, 1.0, 1.25, rng.uniform(0.5, 1.3)]))
            rec.update(n=n, zoom=zoom)
            seq = rng.choice([["v0", "v1", "p"], ["p", "c", "v0", "v1", "p"], ["N", "x", "y", "i", "v0", "v1", "p"]])
            rec["data"] = []
            rec["seq"] = seq
            rec["optext"] = psg_case(cid, n, nb, box, zoom, fset, seq)
            recs.append(rec)
            continue
        if kind == "random":
            data = [abs(x) for x in C.data_family(rng, n, nb, rng.choice(["gauss", "noise", "impulse"]), 0)]
            seq = [rng.choice(OPS) for _ in range(rng.randint(3, 30))] + ["p"]
        elif kind == "norm":
            data = [abs(x) + (0.01 if rng.random() < 0.5 else 0.0)
                    for x in C.data_family(rng, n, nb, rng.choice(["gauss", "noise"]), 0)]
            seq = ["x", "i", "n", "x", "y", "i", "p"] if rng.random() < 0.5 else ["x", "N", "x", "y", "i", "p"]
        elif kind in ("gauss", "frame"):
            n = max(n, 32)
            rec["n"] = n
            dq = (box[1] - box[0]) / (n - 1)
            params = []
            for b in range(nb):
                comps = []
                for _ in range(rng.choice([1, 1, 2])):
                    comps.append((rng.uniform(0.2, 2.0), rng.uniform(box[0] + 4.2, box[1] - 4.2),
                                  rng.uniform(2.0 * dq, 0.7), rng.uniform(box[2] + 4.2, box[3] - 4.2),
                                  rng.uniform(2.0 * dq, 0.7)))
                params.append(comps)
            rec["params"] = params
            data = gauss_data(n, nb, box, params)
            seq = ["x", "y", "i", "v0", "v1", "p"]
            if kind == "frame" and nb > 1:
                # same bunch 0, different other bunches
                params2 = [params[0]] + [[(rng.uniform(0.2, 2.0), rng.uniform(-1, 1), 0.5, rng.uniform(-1, 1), 0.5)]
                                        for _ in range(nb - 1)]
                rec["data2"] = gauss_data(n, nb, box, params2)
        elif k % 12 == 4:
            # the grid is rewritten (op D: every bunch moved by one column) and then refreshed in EITHER order: each
            # refresh must use the data as they are now (compact data: many columns without charge)
            kind = "random"
            rec["kind"] = kind
            data = [abs(x) for x in C.data_family(rng, n, nb, "impulse", 0)]
            seq = ["D", "D", "y", "x", "i", "v1", "v0", "p", "D", "x", "y", "i", "p"]
            rec["refreshed"] = True
        else:
            data = [abs(x) for x in C.data_family(rng, n, nb, rng.choice(["gauss", "noise"]), 0)]
            seq = ["x", "y", "i", "v0", "v1", "p", "c", "p", "v0", "v1", "p"]
        if k % 10 == 1:
            # exact case: total charge exactly 1 but the two bunches hold 5/8 and 3/8 of it instead of the set halves
            # (4x4 cells, box width 9 => cell size 3, Simpson weights 1,4,2,1: every sum is exact in binary32);
            # renormalisation must still restore the shares
            rec.update(kind="norm", n=4, nb=2, box=[f32(-4.5), f32(4.5), f32(-4.5), f32(4.5)], fset=[0.5, 0.5])
            n, nb, box, fset = 4, 2, rec["box"], rec["fset"]
            data = [5.0 / 512] * 16 + [3.0 / 512] * 16
            seq = ["x", "N", "x", "y", "i", "p"]
        rec["data"] = data
        rec["seq"] = seq
        rec["optext"] = ps_case(cid, rec["n"], nb, box, fset, data, seq)
        if "data2" in rec:
            rec["optext2"] = ps_case(cid + "_o", rec["n"], nb, box, fset, rec["data2"], seq)
        recs.append(rec)
    return recs


def mixture_moments(comps):
    """mean and variance (q and p) of a Gaussian mixture with weights amp*sq*sp"""
    w = [a * sq * sp for a, mq, sq, mp, sp in comps]
    W = sum(w)
    mq = sum(wi * c[1] for wi, c in zip(w, comps)) / W
    mp = sum(wi * c[3] for wi, c in zip(w, comps)) / W
    vq = sum(wi * (c[2] ** 2 + (c[1] - mq) ** 2) for wi, c in zip(w, comps)) / W
    vp = sum(wi * (c[4] ** 2 + (c[3] - mp) ** 2) for wi, c in zip(w, comps)) / W
    return mq, vq, mp, vp


def oracle(rec, A):
    lines = A.get(rec["id"], [])
    n, nb = rec["n"], rec["nb"]
    if any(l.startswith("error") for l in lines):
        return None
    pr = parse_vals(lines, n, nb)
    if not pr:
        return "no state printed"
    k = rec["kind"]
    if rec.get("refreshed"):
        # after a refresh (in either order) both profiles are the Simpson projections of the data as they are NOW
        dq = (float(rec["box"][1]) - float(rec["box"][0])) / (n - 1)
        ws = [dq / 3 * (1 if i in (0, n - 1) else (4 if i % 2 == 1 else 2)) for i in range(n)]
        for st in pr:
            dat = [h2f(x) for x in st["data"]]
            for b in range(nb):
                for axis, key in ((1, "proj1"), (0, "proj0")):
                    got = [h2f(x) for x in st[key][b * n:(b + 1) * n]]
                    want = []
                    for i in range(n):
                        if axis == 0:
                            want.append(sum(dat[(b * n + i) * n + y] * ws[y] for y in range(n)))
                        else:
                            want.append(sum(dat[(b * n + x) * n + i] * ws[x] for x in range(n)))
                    sc = max(1e-30, max(abs(w) for w in want))
                    for i in range(n):
                        if not abs(got[i] - want[i]) <= 1e-5 * sc:
                            return ("after the grid was rewritten and refreshed, the %s profile of bunch %d is not the projection "
                                    "of the data held (cell %d: %r vs %r)" % ("energy" if axis else "position", b, i, got[i], want[i]))
    if k == "norm":
        st = pr[-1]
        tot = 0.0
        for b in range(nb):
            want = rec["fset"][b]
            got = st["filling"][b]
            if want > 0:
                if not abs(got - want) <= 16 * n * U * want:
                    return "bunch %d integrates to %r after renormalisation, set share %r" % (b, got, want)
            elif got != 0.0:
                return "empty bucket %d integrates to %r after renormalisation" % (b, got)
            tot += want if want > 0 else 0
        if not abs(st["integral"] - tot) <= 32 * n * U:
            return "total integral %r after renormalisation (expected %r)" % (st["integral"], tot)
    if k == "start":
        st = pr[-1]
        z = rec["zoom"]
        tot = 0.0
        for b in range(nb):
            want = rec["fset"][b]
            got = st["filling"][b]
            if want > 0:
                tot += want
                if not abs(got - want) <= 16 * n * U * want:
                    return "Gaussian start of width %r: bunch %d holds %r, set share %r" % (z, b, got, want)
                for name, g, w, sc in (("position", st["mean"][b], 0.0, z), ("length", st["rms"][b], z, z),
                                       ("mean energy", st["mean"][nb + b], 0.0, z), ("spread", st["rms"][nb + b], z, z)):
                    if not abs(g - w) <= 5e-3 * sc:
                        return "Gaussian start of width %r: bunch %d %s reported %r, expected %r" % (z, b, name, g, w)
            elif got != 0.0:
                return "Gaussian start: empty bucket %d holds %r" % (b, got)
        if not abs(st["integral"] - tot) <= 32 * n * U:
            return "Gaussian start: total charge %r (expected %r)" % (st["integral"], tot)
    if k in ("gauss", "frame"):
        st = pr[-1]
        for b in range(nb):
            if rec["fset"][b] <= 0:
                if st["mean"][b] != 0 or st["mean"][nb + b] != 0 or st["var"][b] != 0:
                    return "empty bucket %d reports non-zero moments" % b
                continue
            mq, vq, mp, vp = mixture_moments(rec["params"][b])
            tol = 2e-3
            got = (st["mean"][b], st["var"][b], st["mean"][nb + b], st["var"][nb + b])
            for name, g, w, sc in (("position", got[0], mq, math.sqrt(vq)), ("length^2", got[1], vq, vq),
                                   ("mean energy", got[2], mp, math.sqrt(vp)), ("spread^2", got[3], vp, vp)):
                if not abs(g - w) <= tol * sc:
                    return "bunch %d %s reported %r, true moment %r" % (b, name, g, w)
            if not abs(st["rms"][b] - math.sqrt(vq)) <= tol * math.sqrt(vq):
                return "bunch %d length reported %r, true %r" % (b, st["rms"][b], math.sqrt(vq))
        if k == "frame" and "data2" in rec:
            pr2 = parse_vals(A.get(rec["id"] + "_o", []), n, nb)
            if not pr2:
                return "no state printed for the frame partner"
            st2 = pr2[-1]
            if rec["fset"][0] > 0:
                for key in ("mean_hex", "var_hex", "rms_hex"):
                    for ax in (0, 1):
                        if st[key][ax * nb] != st2[key][ax * nb]:
                            return "moments of bunch 0 change when only other bunches' data change (%s)" % key
                if st["proj0"][0:n] != st2["proj0"][0:n] or st["filling_hex"][0] != st2["filling_hex"][0]:
                    return "projection/charge of bunch 0 change when only other bunches' data change"
    if k == "copy":
        if len(pr) < 3:
            return "copy sequence printed %d states" % len(pr)
        a, b_, c_ = pr[0], pr[1], pr[2]
        for key in ("data", "proj0", "proj1", "filling_hex", "integral_hex"):
            if a[key] != b_[key]:
                return "copy differs from original in %s" % key
        for key in ("mean_hex", "var_hex", "rms_hex"):
            if a[key] != c_[key]:
                return "copy reports different moments (%s) than the original" % key
    return None


def explore(chk, harness, count, sizes, tag):
    rng = lib.Rng(chk.seed, "C09/" + tag)
    recs = gen(rng, count, sizes)
    optexts = {}
    for r in recs:
        optexts[r["id"]] = r["optext"]
        if "optext2" in r:
            optexts[r["id"] + "_o"] = r["optext2"]
    A, B, mism, drift, san = corr.run_correspondence(chk, harness, optexts, tag)
    fails = []
    for r in recs:
        f = oracle(r, A)
        if f:
            fails.append((r, f))
    return recs, optexts, mism, drift, san, fails


def run(chk):
    ok, det = lib.prove(chk, MODULES, min_examples=1)
    harness = lib.build_harness()
    quick = chk.tier == "quick"
    sizes = [4, 5, 8, 16, 17] if quick else [4, 5, 8, 9, 16, 17, 32, 33, 64]
    count = 100 if quick else 3000
    recs, optexts, mism, drift, san, fails = explore(chk, harness, count, sizes, "main")
    chk.cov["evaluations"] = len(optexts)
    chk.cov["distinct_nontrivial"] = len({t for t in optexts.values()})
    chk.cov["rule"] = ("PhaseSpace op sequences: random sequences over {xproj,yproj,integrate,normalize,average,"
                       "variance,copy,print}; normalisation cases; off-centre Gaussian mixtures; frame pairs (same "
                       "bunch 0, other bunches changed); copy sequences; distinct = distinct op text")
    d = {}
    for r in recs:
        for key in ("kind", "nb", "n"):
            d["%s=%s" % (key, r[key])] = d.get("%s=%s" % (key, r[key]), 0) + 1
    d["with_empty_bucket"] = sum(1 for r in recs if any(f <= 0 for f in r["fset"]))
    chk.cov["distribution"] = d
    chk.cov["correspondence"] = {"cases": len(optexts), "mismatches": len(mism), "bitwise_drift": drift}
    chk.cov["samples"] = [{"case": recs[1]["optext"][:300]},
                          {"theorem": "Inovesa.Props.C09.normalize_exact: fresh integral, pos b, charge != 0 => charge after normalize = fset b (any n, nb, data)"},
                          {"theorem": "normalize_stale / average_is_first_moment / variance_is_second_moment / projections_frame / copy_same"}]
    chk.assumptions += [
        "theorems in the real-arithmetic semantics; the clause 'Gaussian of mean mu, width sigma => mu, sigma up to discretisation error' is measured (oracle, tolerance 2e-3 relative), not proved",
        "domain: equal cell size on both axes (the program only builds square grids of equal extent); with delta_q != delta_p the energy moments of the API would be off by delta_p/delta_q (single Simpson weight vector) - outside the documented domain",
        "normalize() is exact only after a fresh integrate(): theorem normalize_stale states what happens otherwise",
    ]
    if san:
        chk.violation("sanitizer/abort in the implementation: " + san[:300],
                      "# harness aborted\n" + san + "\n" + "".join(optexts.values())[:200000], tag="sanitizer")
    for r, f in fails[:1]:
        chk.violation("C09 violated: " + f, "# C09 oracle failure: %s\n%s%s" % (f, r["optext"], r.get("optext2", "")),
                      tag="oracle_" + r["id"])
    broken = []
    if not ok:
        broken.append("proof obligation: " + str(det.get("broken"))[:1500])
    if mism:
        broken.append("correspondence (model vs implementation): case %s: %s" % mism[0])
    if broken and not fails and not san:
        recs2, opt2, mism2, drift2, san2, fails2 = explore(chk, harness, 1500, [4, 5, 8, 16, 17, 32], "search")
        chk.cov["search"] = {"cases": len(opt2), "oracle_failures": len(fails2)}
        if fails2:
            r, f = fails2[0]
            chk.violation("C09 violated: %s; broken: %s" % (f, broken[0][:300]),
                          "# C09 oracle failure found by search: %s\n%s%s" % (f, r["optext"], r.get("optext2", "")),
                          tag="search_" + r["id"])
        else:
            txt = "# C09 no longer shown; no failing input found by the search\n# %s\n" % (
                "\n# ".join(b.replace("\n", "\n# ") for b in broken))
            if mism and mism[0][0] in optexts:
                txt += "# first differing correspondence case follows\n" + optexts[mism[0][0]]
            chk.violation("C09 no longer shown: " + broken[0][:400], txt, tag="unproved", found_input=False)


def replay(chk, path):
    harness = lib.build_harness()
    with open(path) as f:
        txt = f.read()
    a, b, rc, err, rc2, err2 = C.run_both(harness, txt, "replay")
    print("\n".join(l[:200] for l in a[:50]))
    chk.cov["evaluations"] = len(C.split_cases(a))
