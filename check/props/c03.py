"""C03 — the bunch centroid rotates by 2*pi/steps per step and the orbit closes."""
import math
import os
import sys

sys.path.insert(0, os.path.dirname(os.path.dirname(os.path.abspath(__file__))))
import lib  # noqa
import cases as C  # noqa
import corr  # noqa
import progcommon as P  # noqa
from lib import f32, f2h, h2f  # noqa

MODULES = ["InovesaModel.Props.C03", "InovesaModel.Props.C03Main", "InovesaModel.Props.TieRuler", "InovesaModel.Props.TieRF", "InovesaModel.Props.TieDrift", "InovesaModel.Props.TieMain", "InovesaModel.Props.TieKick", "InovesaModel.Props.TiePhysics"]
LEVEL = "proof"


def machine(steps):
    """main()'s parameter arithmetic for the default machine (binary64), as the program does it"""
    f0, H, E0, sE, V, alpha0 = float(f32(9e6)), 50.0, 1.3e9, 4.7e-4, 1e6, float(f32(4e-3))
    R = P.C_LIGHT / (2 * math.pi * f0)
    gamma = E0 / P.ME
    V0 = P.E_CHARGE * gamma ** 4 / (3 * P.EPS0 * R)
    Veff = math.sqrt(V * V - V0 * V0)
    fs = f0 * math.sqrt(alpha0 * H * Veff / (2 * math.pi * E0))
    dE = sE * E0
    bl = P.C_LIGHT * dE / H / f0 ** 2 / Veff * fs
    dt = 1.0 / (fs * steps)
    return dict(f0=f0, fRF=f0 * H, E0=E0, dE=dE, V=V, V0=V0, Veff=Veff, fs=fs, bl=bl, revpart=f0 * dt,
                angle=2 * math.pi / steps)


def gen(rng, count, quick, sin_steps=None):
    recs = []
    for k in range(count):
        # odd grid sizes too: the table builder and the map application must agree on the grid centre n/2
        n = rng.choice([32, 33, 48] if quick else [32, 33, 47, 48, 64, 65])
        it = rng.choice([2, 3, 4])
        lin = k % 3 != 2
        if sin_steps is not None:
            # long-period sinusoidal runs: fine grid, cubic interpolation, narrow blob (the synchronous
            # phase of a sine shifts the equilibrium of a blob by ~ tan(phi_s)*bl2phase*sigma^2/2)
            n, it, lin = 64, 4, False
        steps = rng.choice([40, 60, 100, 200]) if lin or sin_steps is None else sin_steps
        m = machine(steps)
        shx, shy = rng.choice([0, 0, 1.5, -2.0]), rng.choice([0, 0, -1.0, 2.5])
        pq = 12.0
        qc, pc = -shx * pq / (n - 1), -shy * pq / (n - 1)
        box = [f32(qc - 6), f32(qc + 6), f32(pc - 6), f32(pc + 6), f32(m["bl"]), f32(m["dE"])]
        amp = rng.uniform(0.3, 1.6) if lin else (rng.uniform(0.05, 0.3) if sin_steps is None else rng.uniform(0.25, 0.3))
        ph = rng.uniform(0, 2 * math.pi)
        q0, p0 = amp * math.cos(ph), amp * math.sin(ph)
        sg = rng.uniform(0.55, 0.8) if sin_steps is None else 0.35
        dq = pq / (n - 1)
        data = []
        for x in range(n):
            q = box[0] + x * dq
            for y in range(n):
                p = box[2] + y * dq
                v = math.exp(-0.5 * ((q - q0) ** 2 + (p - p0) ** 2) / sg ** 2)
                data.append(f32(v) if v > 1e-7 else 0.0)
        # every fourth case: a second bunch with another start (kick AND drift must act on every bunch)
        nb = 2 if (k % 4 == 3 and sin_steps is None) else 1
        if nb == 2:
            ph2 = ph + rng.uniform(1.0, 5.0)
            q1, p1 = amp * math.cos(ph2), amp * math.sin(ph2)
            for x in range(n):
                q = box[0] + x * dq
                for y in range(n):
                    p = box[2] + y * dq
                    v = math.exp(-0.5 * ((q - q1) ** 2 + (p - p1) ** 2) / sg ** 2)
                    data.append(f32(v) if v > 1e-7 else 0.0)
        K = steps
        every = max(1, steps // 20)
        e = box + [f32(m["angle"]), f32(m["fRF"]), 0.0, 0.0, f32(m["E0"])]
        if not lin:
            e += [f32(m["revpart"]), f32(m["Vsin"] if "Vsin" in m else m["V"]), f32(m["V0"])]
        cid = "c%d" % k
        recs.append(dict(id=cid, n=n, it=it, lin=lin, steps=steps, K=K, c0=(q0, p0), m=m, nb=nb,
                         optext="rot %s %d %d %d %d %d %s\nextra %s\ndata %s\nrun\n" % (
                             cid, n, it, nb, K, every, "lin" if lin else "sin", " ".join(f2h(x) for x in e),
                             " ".join(f2h(x) for x in data))))
    return recs


def series(lines):
    out = []
    for l in lines:
        t = l.split()
        if t[0] == "vals":
            v = [h2f(x) for x in t[1:]]
            out.append((int(v[0]), v[1], v[2], v[3]))
    return out


def oracle(rec, A):
    allser = series(A.get(rec["id"], []))
    nb = rec.get("nb", 1)
    for b in range(nb):
        f = oracle_bunch(rec, allser[b::nb])
        if f:
            return f if nb == 1 else "bunch %d of %d: %s" % (b, nb, f)
    return None


def oracle_bunch(rec, ser):
    if len(ser) < 3:
        return "no centroid series"
    th = float(f32(rec["m"]["angle"]))
    # linear model: the kick slope is tan(theta); sinusoidal model: the small-amplitude slope that
    # makes the synchrotron frequency come out right is theta itself
    t = math.tan(th) if rec["lin"] else th
    k0, q, p, m0 = ser[0]
    amp = math.hypot(q, p)
    split = (0.5 * th + 20 * th * th) * amp + 2e-4      # first-order splitting error allowed by the property
    v = (q, p)
    kcur = 0
    for k, qk, pk, mk in ser[1:]:
        while kcur < k:
            pp = v[1] + t * v[0]
            v = (v[0] - th * pp, pp)
            kcur += 1
        if abs(mk - m0) > 5e-4 * abs(m0):
            # numerical diffusion of low-order interpolation has spread the blob to the grid border:
            # the transport theorem needs interior support, stop comparing here
            return None
        # (charge that reaches the zeroed border rows, 6 units away, drags the centroid: allow for what is missing)
        tol = ((4e-3 * amp + 2e-4) if rec["lin"] else split) + 8.0 * abs(mk - m0) / abs(m0)
        if math.hypot(qk - v[0], pk - v[1]) > tol:
            return ("centroid after %d steps is (%.5f, %.5f); a rotation by 2*pi/%d per step (RF kick + drift) predicts "
                    "(%.5f, %.5f) [start (%.4f, %.4f), tolerance %.2e]" % (k, qk, pk, rec["steps"], v[0], v[1], q, p, tol))
    kK, qK, pK, _ = ser[-1]
    if kK == rec["steps"]:
        if math.hypot(qK - q, pK - p) > split:
            return ("orbit not closed after one period of %d steps (%s RF): start (%.5f, %.5f), end (%.5f, %.5f), "
                    "distance %.2e > first-order splitting error %.2e"
                    % (rec["steps"], "linear" if rec["lin"] else "sinusoidal", q, p, qK, pK,
                       math.hypot(qK - q, pK - p), split))
    return None


def explore(chk, harness, count, quick, tag, sin_steps=None):
    rng = lib.Rng(chk.seed, "C03/" + tag)
    recs = gen(rng, count, quick, sin_steps)
    optexts = {r["id"]: r["optext"] for r in recs}
    A, B, mism, drift, san = corr.run_correspondence(chk, harness, optexts, tag)
    fails = [(r, f) for r in recs for f in [oracle(r, A)] if f]
    return recs, optexts, mism, drift, san, fails


def program_tune(chk, tag, nruns):
    """Whole program, sinusoidal and linear RF at a low RF voltage (V0/V_RF = 0.3..0.5, where a wrong amplitude or energy
    loss handed to the RF map changes the small-amplitude tune by several per cent): a displaced start distribution is
    tracked for 4 synchrotron periods and the frequency of the recorded bunch position is fitted; it must be one
    oscillation per `steps` steps."""
    import shutil
    import numpy as np
    import prog
    exe = lib.build_inovesa("plain")
    h5 = lib.build_h5dump()
    rng = lib.Rng(chk.seed, "C03/tune/" + tag)
    fails, runs = [], []
    for k in range(nruns):
        V = rng.choice([1.0e5, 1.15e5, 1.3e5])
        lin = 0 if k % 3 != 2 else 1
        N = rng.choice([100, 150])
        n = rng.choice([64, 65])
        d = prog.scratch()
        try:
            with open(os.path.join(d, "start.txt"), "w") as f:
                for _ in range(30000):
                    f.write("%.5f %.5f\n" % (rng.gauss(0.6, 1), rng.gauss(0, 1)))
            a = list(prog.BASE_ARGS) + ["-s", str(n), "-N", str(N), "-T", "4", "-n", "2", "-G", "0", "-V", repr(V),
                                        "--LinearRF", str(lin), "-i", "start.txt", "-o", "a.h5", "--RenormalizeCharge", "-1"]
            r = prog.run_inovesa(exe, a, d)
            if r.rc != 0 or not os.path.exists(os.path.join(d, "a.h5")):
                fails.append(("run failed: %s" % (r.err or r.out)[-200:], a))
                continue
            D = prog.dump(h5, os.path.join(d, "a.h5"))
            pos = np.array(prog.fvals(D["dsets"]["/BunchPosition/data"]))
            t = np.array(prog.fvals(D["dsets"]["/Info/AxisValues_t"]))
            best = None
            for fq in np.linspace(0.8, 1.2, 801):
                A = np.vstack([np.cos(2 * math.pi * fq * t), np.sin(2 * math.pi * fq * t), np.ones_like(t)]).T
                c, _res, _rk, _sv = np.linalg.lstsq(A, pos, rcond=None)
                e = float(((A @ c - pos) ** 2).sum())
                if best is None or e < best[0]:
                    best = (e, float(fq), math.hypot(c[0], c[1]))
            runs.append(dict(V=V, linear=lin, steps=N, n=n, tune=best[1], amplitude=best[2]))
            if best[2] > 5e-3 and abs(best[1] - 1.0) > 0.02:
                fails.append(("program with %s RF at V_RF=%g: the bunch centroid oscillates %.3f times per %d steps instead of once "
                              "(amplitude %.3g)" % ("linear" if lin else "sinusoidal", V, best[1], N, best[2]), a))
        finally:
            shutil.rmtree(d, ignore_errors=True)
    return runs, fails


def run(chk):
    ok, det = lib.prove(chk, MODULES, min_examples=1)
    harness = lib.build_harness()
    quick = chk.tier == "quick"
    count = 12 if quick else 150
    recs, optexts, mism, drift, san, fails = explore(chk, harness, count, quick, "main")
    # long-period sinusoidal runs: the splitting error shrinks with 1/steps, a wrong small-amplitude tune does not
    recs_s, opt_s, mism_s, drift_s, san_s, fails_s = explore(chk, harness, 1 if quick else 4, True, "sin-long",
                                                             sin_steps=4000)
    recs += recs_s
    optexts.update(opt_s)
    mism += mism_s
    fails += fails_s
    san = san or san_s
    chk.cov["evaluations"] = len(recs)
    chk.cov["distinct_nontrivial"] = len({r["optext"] for r in recs})
    chk.cov["rule"] = ("Gaussian blobs at random off-centre positions on shifted grids, rotated for one synchrotron period "
                       "by the real RFKickMap (linear / sinusoidal with main()'s parameter arithmetic) + DriftMap, orders 2-4, "
                       "40-200 steps per period (sinusoidal also 4000/12000); centroid track vs the proved one-step map; the "
                       "Lean model iterates the same maps bitwise; distinct = distinct op text")
    d = {}
    for r in recs:
        for key in ("lin", "steps", "it", "n"):
            d["%s=%s" % (key, r[key])] = d.get("%s=%s" % (key, r[key]), 0) + 1
    chk.cov["distribution"] = d
    chk.cov["steps_iterated"] = sum(r["K"] for r in recs)
    chk.cov["correspondence"] = {"cases": len(recs), "mismatches": len(mism), "bitwise_drift": drift}
    chk.cov["samples"] = [{"case": recs[0]["optext"][:200]},
                          {"theorem": "Inovesa.Props.C03.kick_line_first_moment, zerobin_is_origin, invariant_form, centroid_recurrence, form_positive_definite, trace_close_to_rotation"}]
    chk.assumptions += [
        "tan/sin/pow are library values passed from the implementation to the model",
        "the sinusoidal model is compared with the linear one-step map for small amplitudes only (tolerance 2.5% of the amplitude: curvature of the sine); its parameters follow main()'s arithmetic for the default machine",
        "first-order splitting error allowed for the closure: (0.5*theta + 20*theta^2)*amplitude + 2e-4",
    ]
    truns, tfails = program_tune(chk, "main", 2 if quick else 12)
    chk.cov["program_tune"] = truns
    if san:
        chk.violation("sanitizer/abort in the implementation: " + san[:300],
                      "# harness aborted\n" + san + "\n" + "".join(optexts.values())[:100000], tag="sanitizer")
    for r, f in fails[:1]:
        chk.violation("C03 violated: " + f, "# C03 oracle failure: %s\n%s" % (f, r["optext"]), tag="oracle_" + r["id"])
    for f, a in tfails[:1]:
        chk.violation("C03 violated: " + f, "# C03: %s\n# start.txt: 30000 lines `q p` drawn from N(0.6,1) x N(0,1)\ninovesa %s\n" % (f, " ".join(a)),
                      tag="tune")
    fails = fails + [(None, f) for f, a in tfails]
    broken = []
    if not ok:
        broken.append("proof obligation: " + str(det.get("broken"))[:1500])
    if mism:
        broken.append("correspondence (model vs implementation): case %s: %s" % mism[0])
    if broken and not fails and not san:
        recs2, opt2, mism2, drift2, san2, fails2 = explore(chk, harness, 60, True, "search")
        chk.cov["search"] = {"cases": len(recs2), "oracle_failures": len(fails2)}
        if fails2:
            r, f = fails2[0]
            chk.violation("C03 violated: %s; broken: %s" % (f, broken[0][:300]),
                          "# C03 oracle failure found by search: %s\n%s" % (f, r["optext"]), tag="search_" + r["id"])
        else:
            txt = "# C03 no longer shown; no failing input found by the search\n# %s\n" % (
                "\n# ".join(b.replace("\n", "\n# ") for b in broken))
            if mism and mism[0][0] in optexts:
                txt += "# first differing correspondence case follows\n" + optexts[mism[0][0]]
            chk.violation("C03 no longer shown: " + broken[0][:400], txt, tag="unproved", found_input=False)


def replay(chk, path):
    harness = lib.build_harness()
    with open(path) as f:
        txt = f.read()
    a, b, rc, err, rc2, err2 = C.run_both(harness, txt, "replay")
    print("\n".join(l[:200] for l in a[:40]))
    chk.cov["evaluations"] = len(C.split_cases(a))
