"""C18 — wake and CSR spectrum depend on the current profile only, not on past calls."""
import os
import sys

sys.path.insert(0, os.path.dirname(os.path.dirname(os.path.abspath(__file__))))
import lib  # noqa
import cases as C  # noqa
import corr  # noqa
import efcommon as E  # noqa
from lib import f32  # noqa

MODULES = ["InovesaModel.Props.C18", "InovesaModel.Props.TieEF"]
LEVEL = "proof"


def gen(rng, count, sizes, maxlen):
    recs = []
    for k in range(count):
        n = rng.choice(sizes)
        nb, spacing, buckets, nmax = E.layout(rng, n)
        z = E.impedance(rng, nmax, passive=rng.random() < 0.7)
        if k % 3 == 1:
            # a table filled over its whole length: nothing an operation leaves above the Nyquist index may reach another one
            z = [(zz if i <= nmax // 2 else (f32(rng.uniform(0.1, 2)), f32(rng.uniform(-1, 1)))) for i, zz in enumerate(z)]
        nps = rng.randint(2, 4)
        profs = [E.profile(rng, n, nb) for _ in range(nps)]
        seq = []
        for _ in range(rng.randint(1, maxlen)):
            seq += ["P%d" % rng.randrange(nps), rng.choice(["w", "p", "c", "C", "w", "C"])]
        last = seq[-2:]
        hid, fid = "h%d" % k, "f%d" % k
        recs.append(dict(id=hid, fid=fid, n=n, nb=nb, nmax=nmax, spacing=spacing, buckets=buckets, seq=seq,
                         hist=E.efcase(hid, n, nb, nmax, spacing, buckets, z, profs, seq),
                         fresh=E.efcase(fid, n, nb, nmax, spacing, buckets, z, profs, last)))
    return recs


def oracle(rec, A):
    _, h = E.parse_ops(A.get(rec["id"], []))
    _, f = E.parse_ops(A.get(rec["fid"], []))
    if not h or not f:
        return "no output"
    (oph, dh), (opf, df) = h[-1], f[-1]
    for tag in df:
        if dh.get(tag) != df[tag]:
            i = next((i for i in range(len(df[tag])) if i >= len(dh.get(tag, [])) or dh[tag][i] != df[tag][i]), 0)
            return ("after history %s the %s of op '%s' differs from a fresh object's (entry %d: %s vs %s)"
                    % (" ".join(rec["seq"][:-2]), tag, opf, i, dh.get(tag, ["?"] * (i + 1))[i], df[tag][i]))
    return None


def explore(chk, harness, count, sizes, maxlen, tag):
    rng = lib.Rng(chk.seed, "C18/" + tag)
    recs = gen(rng, count, sizes, maxlen)
    optexts = {}
    for r in recs:
        # history and fresh object in ONE op text: they must run in the same harness process (the transform plans of
        # a process are reused from its in-memory wisdom; two processes may pick plans that differ in the last bit)
        optexts[r["id"]] = r["hist"] + r["fresh"]
    A, B, mism, drift, san = corr.run_correspondence(chk, harness, optexts, tag)
    fails = [(r, f) for r in recs for f in [oracle(r, A)] if f]
    return recs, optexts, mism, drift, san, fails


def run(chk):
    ok, det = lib.prove(chk, MODULES, min_examples=1)
    harness = lib.build_harness()
    quick = chk.tier == "quick"
    count, maxlen = (60, 8) if quick else (400, 12)
    sizes = [4, 8, 16] if quick else [4, 8, 16, 32]
    recs, optexts, mism, drift, san, fails = explore(chk, harness, count, sizes, maxlen, "main")
    chk.cov["evaluations"] = 2 * len(optexts)
    chk.cov["distinct_nontrivial"] = len({r["hist"] for r in recs if len(r["seq"]) > 2})
    chk.cov["rule"] = ("histories of 1..%d (profile, op) pairs over {wakePotential, padBunchProfiles, updateCSR with/"
                       "without cutoff}, 2-4 profile sets, transform lengths incl. composite and prime, 1-3 bunches with "
                       "empty buckets; each compared bitwise with a fresh object given only the last pair; non-trivial = "
                       "history longer than one op" % maxlen)
    d = {}
    for r in recs:
        for key in ("nmax", "nb"):
            d["%s=%s" % (key, r[key])] = d.get("%s=%s" % (key, r[key]), 0) + 1
    chk.cov["distribution"] = d
    chk.cov["correspondence"] = {"cases": 2 * len(optexts), "mismatches": len(mism), "within_tolerance_not_bitwise": drift,
                                 "note": "model = binary64 naive DFT; padded buffers compared bitwise, transforms within 2e-5 of line scale"}
    chk.cov["samples"] = [{"history": recs[0]["seq"], "case": recs[0]["hist"][:200]},
                          {"theorem": "Inovesa.Props.C18.history_independent: for ALL histories, profiles, transforms t with ClobOK: observables of op after history = observables of op on a fresh object"}]
    chk.assumptions += [
        "ClobOK: FFTW's complex-to-real transform may overwrite entries k < N/2 of its input but leaves entries k >= N/2 (never rewritten by the code) unchanged - assumption about the library, checked empirically (N <= 600, three planner modes) and by the bitwise history-vs-fresh oracle; r2c writes only entries 0..N/2 of its output and preserves its input",
        "model follows the code after fix 537a8d6 (shared padded buffer cleared before use)",
    ]
    if san:
        chk.violation("sanitizer/abort in the implementation: " + san[:300],
                      "# harness aborted\n" + san + "\n" + "".join(optexts.values())[:200000], tag="sanitizer")
    for r, f in fails[:1]:
        chk.violation("C18 violated: " + f, "# C18 oracle failure: %s\n%s%s" % (f, r["hist"], r["fresh"]),
                      tag="oracle_" + r["id"])
    broken = []
    if not ok:
        broken.append("proof obligation: " + str(det.get("broken"))[:1500])
    if mism:
        broken.append("correspondence (model vs implementation): case %s: %s" % mism[0])
    if broken and not fails and not san:
        recs2, opt2, mism2, drift2, san2, fails2 = explore(chk, harness, 600, [4, 8, 16], 16, "search")
        chk.cov["search"] = {"cases": len(opt2), "oracle_failures": len(fails2)}
        if fails2:
            r, f = fails2[0]
            chk.violation("C18 violated: %s; broken: %s" % (f, broken[0][:300]),
                          "# C18 oracle failure found by search: %s\n%s%s" % (f, r["hist"], r["fresh"]),
                          tag="search_" + r["id"])
        else:
            txt = "# C18 no longer shown; no failing input found by the search\n# %s\n" % (
                "\n# ".join(b.replace("\n", "\n# ") for b in broken))
            if mism and mism[0][0] in optexts:
                txt += "# first differing correspondence case follows\n" + optexts[mism[0][0]]
            chk.violation("C18 no longer shown: " + broken[0][:400], txt, tag="unproved", found_input=False)


def replay(chk, path):
    harness = lib.build_harness()
    with open(path) as f:
        txt = f.read()
    a, b, rc, err, rc2, err2 = C.run_both(harness, txt, "replay")
    print("\n".join(l[:200] for l in a[:50]))
    chk.cov["evaluations"] = len(C.split_cases(a))
