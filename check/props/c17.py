"""C17 — no configuration or input file makes the program touch memory it does not own.

Decided by: theorems on the index arithmetic (lean/InovesaModel/Props/C17.lean: padded length vs. bucket
placement from the GENERATED sizes of main.cpp, Fokker-Planck table indices for every position of the zero-energy
row from the GENERATED constructor, kick-map read indices, impedance sum, text reader), tied to the code by the
translator and the correspondence cases of the other properties, plus a property-directed search on sanitizer
builds (AddressSanitizer + UBSan + float-cast-overflow + _GLIBCXX_ASSERTIONS) of the real program and of the API
harness over the configuration domain and the three kinds of input file.
"""
import math
import os
import shutil
import subprocess
import struct
import sys

sys.path.insert(0, os.path.dirname(os.path.dirname(os.path.abspath(__file__))))
import lib  # noqa
import prog  # noqa
import cases as C  # noqa
import corr  # noqa
import progcommon as P  # noqa
from lib import f32, f2h  # noqa

MODULES = ["InovesaModel.Props.C17", "InovesaModel.Props.TieKick", "InovesaModel.Props.TieEF", "InovesaModel.Props.TieFactory", "InovesaModel.Props.TieKickSafe", "InovesaModel.Props.TieEFSafe", "InovesaModel.Props.TieFPApply", "InovesaModel.Props.TieH5Shapes"]
LEVEL = "proof"

C_LIGHT = 2.99792458e8


def natural_bunch_length(V=1e6, H=50.0, f0=None, E0=1.3e9):
    """bl as main.cpp computes it from the defaults (double arithmetic)"""
    f0 = float(f32(9e6)) if f0 is None else f0
    e, eps0, me = 1.602e-19, 8.854187817e-12, 510998.9
    sE, alpha0 = float(f32(4.7e-4)), float(f32(4e-3))
    dE = sE * E0
    R = C_LIGHT / (2 * math.pi * f0)
    V0 = e * (E0 / me) ** 4 / (3 * eps0 * R)
    Veff = math.sqrt(V * V - V0 * V0)
    fs = f0 * math.sqrt(alpha0 * H * Veff / (2 * math.pi * E0))
    return C_LIGHT * dE / H / f0 ** 2 / Veff * fs


IMP_FILES = ["none", "short", "long", "empty", "garbage", "odd", "one", "nan", "header"]
START_FILES = ["txt-ok", "txt-outside", "txt-empty", "txt-garbage", "h5-same", "h5-othersize", "h5-othersize", "h5-missing",
               # legal HDF5 files that are not results files (harness/h5make): no record at all, unusual rank, no data set,
               # two bunches, another storage type, not HDF5 at all
               "h5x-empty3", "h5x-empty4", "h5x-scalar", "h5x-rank2", "h5x-rank5", "h5x-nodata", "h5x-multibunch",
               "h5x-double", "h5x-garbage"]
TRACK_FILES = ["none", "inside", "edge", "outside", "garbage", "empty", "many"]


def write_impedance_file(path, kind, rng, nfreq_hint):
    with open(path, "w") as f:
        if kind == "short":
            for i in range(rng.choice([1, 2, 5, max(2, nfreq_hint // 3)])):
                f.write("%d %g %g\n" % (i, rng.uniform(0, 10), rng.uniform(-5, 5)))
        elif kind == "long":
            for i in range(nfreq_hint * 3 + 7):
                f.write("%d %g %g\n" % (i, rng.uniform(0, 10), rng.uniform(-5, 5)))
        elif kind == "empty":
            pass
        elif kind == "garbage":
            f.write("# not numbers\nfoo bar baz\n\x00\x01\x02 1e400 --3\n")
        elif kind == "odd":
            f.write("0 1.0 2.0\n1 3.0\n")              # last record incomplete
        elif kind == "one":
            f.write("0 1.5 -0.5\n")
        elif kind == "nan":
            f.write("0 nan inf\n1 -inf 1e39\n2 1 1\n")
        elif kind == "header":
            f.write("n re im\n0 1 2\n1 2 3\n")


def write_track_file(path, kind, rng, n):
    with open(path, "w") as f:
        if kind == "inside":
            for _ in range(4):
                f.write("%g %g\n" % (rng.uniform(-2, 2), rng.uniform(-2, 2)))
        elif kind == "edge":
            # physical coordinates of the outermost grid points and just beyond (default grid is [-6, 6])
            for q, p in ((-6, -6), (6, 6), (-6, 6), (6, -6), (5.999, 0), (0, -5.999), (6.0001, 0), (0, 6.0001)):
                f.write("%r %r\n" % (q, p))
        elif kind == "outside":
            f.write("100 0\n0 -100\n-1e9 1e9\n1e38 1e38\n")
        elif kind == "garbage":
            f.write("x y\n1\nnan nan\ninf -inf\n")
        elif kind == "empty":
            pass
        elif kind == "many":
            for _ in range(200):
                f.write("%g %g\n" % (rng.uniform(-7, 7), rng.uniform(-7, 7)))


def write_start_txt(path, kind, rng):
    with open(path, "w") as f:
        if kind == "txt-ok":
            for _ in range(500):
                f.write("%g %g\n" % (rng.gauss(0, 1), rng.gauss(0, 1)))
        elif kind == "txt-outside":
            for _ in range(50):
                f.write("%g %g\n" % (rng.uniform(-30, 30), rng.uniform(-30, 30)))
            f.write("1e30 -1e30\nnan 0\n6 6\n-6 -6\n6.0 -6.0\n")
        elif kind == "txt-empty":
            pass
        elif kind == "txt-garbage":
            f.write("hello\n1 2 3\n\n4\n")


def gen_config(rng, k, quick):
    """one invocation inside the documented domain (grid sizes, bunch patterns, non-overlapping spacings,
    padding with and without rounding, interpolation 1..4, derivative 3..4, Fokker-Planck and tracking variants,
    RF models with and without modulation, grid shifts, RF amplitudes up to beyond the grid, input files)"""
    n = rng.choice([8, 9, 16, 17, 24, 32, 33] if quick else [8, 9, 12, 16, 17, 24, 31, 32, 33, 48, 64])
    nbk = rng.choice([1, 1, 2, 3, 4, 5, 6, 8])
    cur = [rng.choice([0.0, 0.0005, 0.002]) for _ in range(nbk)]
    if all(c == 0 for c in cur):
        cur[rng.randrange(nbk)] = 0.001
    cfg = dict(n=n, cur=cur, N=rng.choice([8, 16, 20]), T=rng.choice([0.1, 0.25, 0.5]),
               outstep=rng.choice([0, 1, 3, 100]), h5save=rng.choice([0, 1, 2]),
               pad=rng.choice([0.5, 1.0, 1.3, 2.0, 3.7, 8.0]), roundpad=rng.choice([0, 1]),
               it=rng.choice([1, 2, 3, 4]), clamp=rng.choice([0, 1]), dt=rng.choice([3, 4]),
               fpt=rng.choice([0, 1, 2, 3]), fptrack=rng.choice([0, 1, 2, 3]),
               linrf=rng.choice([0, 1]), renorm=rng.choice([-1, 0, 2]))
    # grid shifts: anywhere from "zero row at the lower edge" to "zero row at the upper edge" and a bit beyond
    half = (n - 1) / 2.0
    cfg["shx"] = rng.choice([0, 0, rng.choice([-1, 1]) * rng.uniform(0, half + 2), rng.choice([-1, 1]) * half])
    cfg["shy"] = rng.choice([0, 0, rng.choice([-1, 1]) * rng.uniform(0, half + 2), rng.choice([-1, 1]) * half,
                             rng.choice([-1, 1]) * (half - 1)])
    cfg["V"] = rng.choice([1e6, 1e6, 3e5, 5e6, 5e7])       # larger voltage: RF kick beyond the grid per step
    cfg["mod"] = rng.choice([None, None, "mod", "noise", "both"])
    cfg["imp"] = rng.choice(["pp", "none", "free", "wall", "coll", "pp+wall"])
    cfg["impfile"] = rng.choice(IMP_FILES) if k % 2 == 0 else "none"
    cfg["start"] = rng.choice(START_FILES) if k % 3 == 0 else "none"
    cfg["track"] = rng.choice(TRACK_FILES) if k % 2 == 1 else "none"
    # bunch spacing in units of the grid width: >= 1 (buckets do not overlap); values just above 1 make
    # round(n*spacing) exceed n*spacing
    if nbk > 1:
        cfg["spacing"] = rng.choice([None, None, 1.0, (n + 0.5) / n, (n + 0.55) / n, (n + 0.75) / n, 1.5, 2.0, 3.3])
    else:
        cfg["spacing"] = None
    return cfg


def args_of(cfg, d, rng):
    a = ["--config", "/dev/null", "--cldev", "0", "-s", str(cfg["n"]), "-N", str(cfg["N"]), "-T", repr(cfg["T"]),
         "-n", str(cfg["outstep"]), "--SavePhaseSpace", str(cfg["h5save"]), "--padding", repr(cfg["pad"]),
         "--RoundPadding", str(cfg["roundpad"]), "--InterpolationPoints", str(cfg["it"]),
         "--InterpolateClamped", str(cfg["clamp"]), "--derivation", str(cfg["dt"]), "--FPType", str(cfg["fpt"]),
         "--FPTrack", str(cfg["fptrack"]), "--LinearRF", str(cfg["linrf"]), "--RenormalizeCharge", str(cfg["renorm"]),
         "--PhaseSpaceShiftX", repr(cfg["shx"]), "--PhaseSpaceShiftY", repr(cfg["shy"]), "-V", repr(cfg["V"]),
         "-o", "out.h5"]
    a += ["-I"] + [repr(c) for c in cfg["cur"]]
    if cfg["spacing"] is not None:
        bl = natural_bunch_length(V=cfg["V"])
        pq = C_LIGHT / (float(f32(9e6)) * 50.0 * bl * cfg["spacing"])
        a += ["-P", repr(pq)]
    if cfg["mod"] in ("mod", "both"):
        a += ["--RFPhaseModAmplitude", "0.7", "--RFPhaseModFrequency", "30000"]
    if cfg["mod"] in ("noise", "both"):
        a += ["--RFPhaseSpread", "0.05", "--RFAmplitudeSpread", "0.001"]
    imp = cfg["imp"]
    if imp == "none":
        a += ["-G", "0"]
    elif imp == "free":
        a += ["-G", "-1"]
    elif imp == "wall":
        a += ["-G", "0.03", "--UseCSR", "0", "--WallConductivity", "3.5e7"]
    elif imp == "coll":
        a += ["-G", "0.03", "--UseCSR", "0", "--CollimatorRadius", "0.005"]
    elif imp == "pp+wall":
        a += ["-G", "0.02", "--WallConductivity", "1e6", "--WallSusceptibility", "-0.5"]
    if cfg["impfile"] != "none":
        write_impedance_file(os.path.join(d, "z.dat"), cfg["impfile"], rng, cfg["n"] * 2)
        a += ["-Z", "z.dat"]
    if cfg["track"] != "none":
        write_track_file(os.path.join(d, "track.txt"), cfg["track"], rng, cfg["n"])
        a += ["--tracking", "track.txt"]
    st = cfg["start"]
    if st.startswith("txt"):
        write_start_txt(os.path.join(d, "start.txt"), st, rng)
        a += ["-i", "start.txt"]
    return a


SAN_MARKERS = ("ERROR: AddressSanitizer", "runtime error:", "Assertion", "ERROR: LeakSanitizer", "AddressSanitizer:DEADLYSIGNAL")


def classify(r):
    """None if the run completed or stopped with a message; else a short description of the memory error"""
    txt = (r.err or "") + "\n" + (r.out or "")
    for m in SAN_MARKERS:
        if m in txt:
            lines = [l.strip() for l in txt.split("\n") if m in l or l.strip().startswith("#0 ") or l.strip().startswith("#1 ")
                     or "SUMMARY" in l]
            return " | ".join(lines[:4])[:500]
    if r.rc < 0:
        return "killed by signal %d" % (-r.rc)
    if r.rc not in (0, 1):
        return "exit status %d without a message: %s" % (r.rc, txt[-200:])
    return None


def make_odd_start(path, kind, n):
    if kind == "garbage":
        with open(path, "wb") as f:
            f.write(b"\x89HDF\r\n\x1a\n" + bytes(range(256)) * 3)
        return
    p = subprocess.run([lib.build_h5make(), path, kind, str(n)], stdout=subprocess.PIPE, stderr=subprocess.STDOUT, text=True)
    if p.returncode != 0:
        raise RuntimeError("h5make failed: " + p.stdout[-300:])


def run_one(exe, cfg, rng, h5=None):
    d = prog.scratch()
    try:
        a = args_of(cfg, d, rng)
        if cfg["start"].startswith("h5x-"):
            make_odd_start(os.path.join(d, "start.h5"), cfg["start"][4:], cfg["n"])
            a += ["-i", "start.h5"]
        elif cfg["start"].startswith("h5"):
            # a results file of a (possibly different) grid as start distribution
            n0 = cfg["n"] if cfg["start"] == "h5-same" else rng.choice([cfg["n"] // 2, cfg["n"] + 7, cfg["n"] * 2])
            a0 = ["--config", "/dev/null", "--cldev", "0", "-s", str(max(n0, 4)), "-N", "8", "-T", "0.1", "-n", "1",
                  "--SavePhaseSpace", "1", "-o", "start.h5"]
            if cfg["start"] != "h5-missing":
                r0 = prog.run_inovesa(exe, a0, d, timeout=600)
                f0 = classify(r0)
                if f0:
                    return a0, f0, r0
            a += ["-i", "start.h5"]
        try:
            r = prog.run_inovesa(exe, a, d, timeout=900)
        except Exception as ex:  # timeout
            return a, None, None
        return a, classify(r), r
    finally:
        shutil.rmtree(d, ignore_errors=True)


# ------------------------------------------------------------------ API-level cases (harness, sanitizers on)

WILD = [float("nan"), float("inf"), float("-inf"), -1e9, 1e9, 5e9, 3e38, -3e38, 4294967296.0, 4294967300.0]


def wild_offsets(rng, n, nb):
    out = []
    for _ in range(n * nb):
        r = rng.random()
        if r < 0.35:
            out.append(f32(rng.uniform(-3, 3)))
        elif r < 0.55:
            out.append(f32(-(n // 2) - rng.choice([0.5, 0.25, 1.0, 1.5, 2.0, 7.75])))   # source position below the grid
        elif r < 0.7:
            out.append(f32(rng.uniform(n / 2 - 2, 2 * n)))                              # beyond the grid
        elif r < 0.8:
            out.append(f32(-(n // 2) + rng.choice([0.0, 0.5, -1e-3, 1e-3])))            # around source position 0
        else:
            out.append(rng.choice(WILD))
    return out


VALUE_WORDS = ["0", "1", "2", "3", "7", "12", "1.5", "-0.25", "2.125", "-3", "+4", "0.5"]
# words the stream extraction rejects at their first character (a word such as `1.5` in the record-number position
# or `1.2.3` would be split by the stream; the token-level model of the reader does not cover those)
BAD_WORDS = ["x", "nan", "#", "--1", "e5", ".", "-", "abc", "inf"]


def file_words(rng, style):
    words = []
    if style in ("clean", "dirty"):
        nrec = rng.randint(0 if style == "dirty" else 1, 12)
        for i in range(nrec):
            words += [str(i if rng.random() < 0.85 else max(0, i - 1)), rng.choice(VALUE_WORDS), rng.choice(VALUE_WORDS), "~"]
        if style == "dirty":
            # one rejected word in one of the three positions of the next record, then anything
            pos = rng.randrange(3)
            words += [str(nrec), rng.choice(VALUE_WORDS)][:pos] + [rng.choice(BAD_WORDS)]
            words += [rng.choice(VALUE_WORDS + BAD_WORDS + ["~", "1.2.3", "1e"]) for _ in range(rng.randint(0, 12))]
    elif style == "short":
        words = ["0", "1.5", "2", "~", "1", "0.5"]
    return words


def api_cases(rng, count):
    recs = []
    for k in range(count):
        kind = ["kick", "kick", "sum", "file", "file", "pow2"][k % 6]
        cid = "s%d" % k
        if kind == "kick":
            n = rng.choice([4, 5, 8, 9, 16, 17])
            it = rng.choice([1, 2, 3, 4])
            nb = rng.choice([1, 2])
            axis = rng.choice(["x", "y"])
            off = wild_offsets(rng, n, nb)
            data = C.data_family(rng, n, nb, rng.choice(["gauss", "noise"]), 1)
            recs.append(dict(id=cid, kind="kick", n=n, optext=C.kick_case(cid, axis, n, it, nb, -1, off, data)))
        elif kind == "sum":
            n1, n2 = rng.choice([2, 3, 8, 16, 33]), rng.choice([1, 2, 5, 8, 16, 40, 100])
            e = [f32(1e12), f32(rng.uniform(0, 5)), f32(rng.uniform(-5, 5)), f32(rng.uniform(0, 5)), f32(rng.uniform(-5, 5))]
            recs.append(dict(id=cid, kind="sum", n=n1, n2=n2,
                             optext="imp %s sum %d %d\nextra %s\nrun\n" % (cid, n1, n2, " ".join(f2h(x) for x in e))))
        elif kind == "file":
            style = rng.choice(["clean", "clean", "dirty", "dirty", "empty", "short"])
            words = file_words(rng, style)
            recs.append(dict(id=cid, kind="file", n=0, words=words,
                             optext="imp %s file 0\nextra %s\nops %s\nrun\n" % (cid, f2h(f32(1e12)), " ".join(words))))
        else:
            vals = [rng.choice([1, 2, 3, 4, 5, 7, 8, 9, 100, 1023, 1024, 1025, 2 ** 31, 2 ** 31 + 1, 2 ** 40 + 3, 2 ** 62, 2 ** 63,
                                rng.randint(1, 10 ** 6)]) for _ in range(12)]
            recs.append(dict(id=cid, kind="pow2", n=0, vals=vals,
                             optext="imp %s pow2 0\nops %s\nrun\n" % (cid, " ".join(str(v) for v in vals))))
    return recs


def api_oracle(rec, A):
    lines = A.get(rec["id"], [])
    if rec["kind"] == "kick":
        for l in lines:
            t = l.split()
            if t and t[0] == "tab":
                idx = [int(x) for x in t[1::2]]
                if any(i >= rec["n"] for i in idx):
                    return "source-map table holds index %d >= line length %d" % (max(idx), rec["n"])
    if rec["kind"] == "sum":
        for l in lines:
            t = l.split()
            if t and t[0] == "ints" and int(t[2]) != rec["n"]:
                return "sum of tables of lengths %d and %d has %s entries" % (rec["n"], rec["n2"], t[2])
    if rec["kind"] == "file":
        # independent reading of the property: only complete (number, value, value) records before the first
        # rejected word count; a repeated record number is skipped
        import re
        isnum = lambda w: re.fullmatch(r"[-+]?[0-9]+(\.[0-9]+)?", w) is not None
        ws = [w for w in rec["words"] if w != "~"]
        want, old, i = 0, None, 0
        while i + 2 < len(ws) and ws[i].isdigit() and isnum(ws[i + 1]) and isnum(ws[i + 2]):
            if ws[i] != old:
                want += 1
            old = ws[i]
            i += 3
        for l in lines:
            t = l.split()
            if t and t[0] == "ints" and int(t[2]) != want:
                return "impedance file with %d complete records gives a table of %s samples" % (want, t[2])
    if rec["kind"] == "pow2":
        for l in lines:
            t = l.split()
            if t and t[0] == "ints":
                for v, r in zip(rec["vals"], [int(x) for x in t[1:]]):
                    if r < v or r & (r - 1) or r >= 2 * v and v > 1:
                        return "upper_power_of_two(%d) = %d" % (v, r)
    return None


# ------------------------------------------------------------------ buffer lengths: generated model vs results file

def spacing_of(cfg):
    """bunch spacing in units of the grid width as main() computes it (double), or None"""
    if len(cfg["cur"]) < 2:
        return None
    bl = natural_bunch_length(V=cfg["V"])
    if cfg["spacing"] is None:
        pq = 12.0
    else:
        pq = float(f32(C_LIGHT / (float(f32(9e6)) * 50.0 * bl * cfg["spacing"])))
    return (1.0 / (float(f32(9e6)) * 50.0)) * C_LIGHT / bl / pq


def sizes_model(cfg):
    """ask the Lean model (generated Gen.sizes) for the buffer length and bucket numbers"""
    import subprocess
    from fractions import Fraction
    sp = spacing_of(cfg)
    if sp is None:
        return None
    n, nb = cfg["n"], len(cfg["cur"])
    # stay away from rounding boundaries of the double products (the model is over exact rationals)
    for v, half in ((n * sp, True), (n * nb * sp, False)):
        fr = (v + (0.5 if half else 0.0)) % 1.0
        if min(fr, 1.0 - fr) < 1e-4:
            return None
    fs, fp = Fraction(sp), Fraction(cfg["pad"])
    import threading
    path = os.path.join(lib.CACHE, "sizes_%d_%d.txt" % (os.getpid(), threading.get_ident()))
    with open(path, "w") as f:
        f.write("sizes z %d %d %d\nops %d %d %d %d\nrun\n" % (n, nb, cfg["roundpad"], fs.numerator, fs.denominator,
                                                             fp.numerator, fp.denominator))
    p = subprocess.run([lib.driver_path(), path], stdout=subprocess.PIPE, text=True)
    os.remove(path)
    ints = [[int(x) for x in l.split()[1:]] for l in p.stdout.split("\n") if l.startswith("ints")]
    if len(ints) != 2:
        return None
    return dict(spacing_bins=ints[0][0], wake_length=ints[0][3], buckets=ints[1])


def sizes_oracle(cfg, D):
    m = sizes_model(cfg)
    if m is None or "/Impedance/data/real" not in D["dsets"]:
        return None, False
    half = D["dsets"]["/Impedance/data/real"][2][0]       # the file holds the first nFreqs()/2 samples
    if half == 0:
        return None, False                                  # no wake impedance in this run
    if half != m["wake_length"] // 2:
        return ("the results file holds %d impedance samples (= half the padded buffer), the generated length arithmetic "
                "gives a buffer of %d" % (half, m["wake_length"])), True
    got = m["wake_length"]
    bn = D["dsets"].get("/Info/BucketNumbers")
    if bn:
        want = [m["buckets"][k] for k, c in enumerate(cfg["cur"]) if c > 0]
        if [int(x) for x in bn[3]] != want:
            return "bucket numbers %r, model %r" % (bn[3], want), True
        last = max(want) * m["spacing_bins"] + cfg["n"]
        if last > got:
            return "last bucket window ends at %d, buffer has %d samples" % (last, got), True
    return None, True


# ------------------------------------------------------------------ exploration

def explore_binary(chk, exe, h5, count, tag, workers=8):
    from concurrent.futures import ThreadPoolExecutor
    rng = lib.Rng(chk.seed, "C17/bin/" + tag)
    jobs = []
    for k in range(count):
        cfg = gen_config(rng, k, chk.tier == "quick")
        jobs.append((k, cfg, lib.Rng(chk.seed, "C17/bin/%s/%d" % (tag, k))))

    def work(j):
        k, cfg, r = j
        d = prog.scratch()
        try:
            a = args_of(cfg, d, r)
            if cfg["start"].startswith("h5x-"):
                make_odd_start(os.path.join(d, "start.h5"), cfg["start"][4:], cfg["n"])
                a += ["-i", "start.h5"]
            elif cfg["start"].startswith("h5"):
                n0 = cfg["n"] if cfg["start"] == "h5-same" else r.choice([max(4, cfg["n"] // 2), cfg["n"] + 7, cfg["n"] * 2])
                a0 = ["--config", "/dev/null", "--cldev", "0", "-s", str(n0), "-N", "8", "-T", "0.1", "-n", "1",
                      "--SavePhaseSpace", "1", "-o", "start.h5"]
                if cfg["start"] != "h5-missing":
                    r0 = prog.run_inovesa(exe, a0, d, timeout=600)
                    f0 = classify(r0)
                    if f0:
                        return k, cfg, a0, f0, None, False
                a += ["-i", "start.h5"]
            try:
                run = prog.run_inovesa(exe, a, d, timeout=900)
            except Exception:
                return k, cfg, a, None, "timeout", False
            f = classify(run)
            szf, szc = None, False
            out = os.path.join(d, "out.h5")
            if not f and run.rc == 0 and os.path.exists(out):
                D = prog.dump(h5, out)
                if D["ok"]:
                    szf, szc = sizes_oracle(cfg, D)
            return k, cfg, a, f or szf, ("completed" if run.rc == 0 and os.path.exists(out) else "stopped"), szc
        finally:
            shutil.rmtree(d, ignore_errors=True)

    fails, stats, compared = [], {}, 0
    with ThreadPoolExecutor(workers) as ex:
        for k, cfg, a, f, how, szc in ex.map(work, jobs):
            stats[how or "error"] = stats.get(how or "error", 0) + 1
            compared += 1 if szc else 0
            if f:
                fails.append((k, cfg, a, f))
    return jobs, fails, stats, compared


def explore_api(chk, harness, count, tag):
    rng = lib.Rng(chk.seed, "C17/api/" + tag)
    recs = api_cases(rng, count)
    optexts = {r["id"]: r["optext"] for r in recs}
    A, B, mism, drift, san = corr.run_correspondence(chk, harness, optexts, tag)
    mism = [(c, d) for c, d in mism if not any(l.startswith("skip") for l in B.get(c, []))]
    fails = [(r, f) for r in recs for f in [api_oracle(r, A)] if f]
    return recs, optexts, mism, drift, san, fails


def replay_text(cfg, a, what):
    return ("# C17: %s\n# configuration: %r\n# command (sanitizer build of main.cpp, cwd holding the generated input files):\n"
            "inovesa %s\n" % (what, cfg, " ".join(a)))


def run(chk):
    ok, det = lib.prove(chk, MODULES, min_examples=2)
    harness = lib.build_harness()
    exe = lib.build_inovesa("san")
    h5 = lib.build_h5dump()
    quick = chk.tier == "quick"
    recs, optexts, mism, drift, san, afails = explore_api(chk, harness, 48 if quick else 900, "main")
    jobs, bfails, stats, compared = explore_binary(chk, exe, h5, 64 if quick else 900, "main", workers=8 if quick else 14)
    # every kind of unusual start file once per run (the random mix above reaches each only now and then)
    odd = []
    for i, kind in enumerate(k for k in START_FILES if k.startswith("h5x-")):
        cfg = gen_config(lib.Rng(chk.seed, "C17/oddstart/%d" % i), 3 * i + 1, True)
        cfg.update(start=kind, cur=[0.001], spacing=None, impfile="none", track="none")
        a, f, r = run_one(exe, cfg, lib.Rng(chk.seed, "C17/oddstart/run/%d" % i), h5)
        odd.append(kind)
        if f:
            bfails.append((9000 + i, cfg, a, "start file '%s': %s" % (kind, f)))
    stats["odd_start_files"] = odd
    chk.cov["evaluations"] = len(recs) + len(jobs) + len(odd)
    chk.cov["distinct_nontrivial"] = len({r["optext"] for r in recs}) + len({repr(j[1]) for j in jobs})
    chk.cov["rule"] = ("(a) API harness under ASan+UBSan+float-cast-overflow+_GLIBCXX_ASSERTIONS: kick maps with displacements "
                       "below/beyond the grid, >= 2^32, NaN, inf; sums of impedance tables of unequal length; impedance files "
                       "(clean, dirty, empty, truncated) through the real reader; upper_power_of_two; all compared with the "
                       "Lean model; (b) the real program (same sanitizers) over grid sizes 8..64, 1-8 buckets with empty ones, "
                       "spacings from 1.0 grid widths, padding 0.5..8 with/without rounding, interpolation 1-4, derivative "
                       "3-4, all FP/tracking variants, both RF models with modulation/noise, grid shifts up to and beyond half "
                       "the grid, RF voltages up to 5e7, impedance/start/tracking files of every kind; a run must complete or "
                       "stop with a message; completed multi-bucket runs: buffer length and bucket numbers vs. the generated "
                       "Lean arithmetic")
    d = {}
    for _, cfg, _r in jobs:
        for key in ("n", "dt", "it", "roundpad", "impfile", "start", "track", "mod", "imp"):
            d["%s=%s" % (key, cfg[key])] = d.get("%s=%s" % (key, cfg[key]), 0) + 1
        d["buckets=%d" % len(cfg["cur"])] = d.get("buckets=%d" % len(cfg["cur"]), 0) + 1
    for r in recs:
        d["api=" + r["kind"]] = d.get("api=" + r["kind"], 0) + 1
    chk.cov["distribution"] = d
    chk.cov["program_runs"] = stats
    chk.cov["length_model_compared"] = compared
    chk.cov["correspondence"] = {"cases": len(recs), "mismatches": len(mism), "bitwise_drift": drift}
    chk.cov["samples"] = [{"command": "inovesa " + " ".join(args_of(jobs[0][1], lib.CACHE, lib.Rng(1, "x")))[:300]} if False else
                          {"config": repr(jobs[0][1])[:400]},
                          {"theorem": "Inovesa.Props.C17: pad_fits_multi/pad_fits_single (generated sizes of main()), fp_reads_in_bounds/"
                                      "fp_writes_in_table (generated FP constructor, every zero-bin position), smRow_total/smRow_in_bounds, "
                                      "addInto_length/addInto_get, readData_length/readData_values, upperPow2_ge"}]
    chk.assumptions += [
        "PARTIAL: memory safety of the compiled program (allocation, library calls, HDF5, FFTW) is searched with sanitizer builds, not proved; the theorems cover the index arithmetic of the modelled parts",
        "configurations outside the documented domain (InterpolationPoints not in 1..4, derivation not in 3..4, GridSize < 8, overlapping buckets) are not judged",
        "double rounding of the products in main() is not modelled (the length theorems do not depend on it)",
    ]
    if san:
        chk.violation("sanitizer report / abort in the API harness: " + san[:300],
                      "# harness aborted\n" + san + "\n" + "".join(optexts.values())[:200000], tag="sanitizer")
    for r, f in afails[:1]:
        chk.violation("C17 violated: " + f, "# C17 API oracle failure: %s\n%s" % (f, r["optext"]), tag="api_" + r["id"])
    for k, cfg, a, f in bfails[:1]:
        chk.violation("C17 violated: %s" % f[:400], replay_text(cfg, a, f), tag="prog_%d" % k)
    broken = []
    if not ok:
        broken.append("proof obligation: " + str(det.get("broken"))[:1500])
    if mism:
        broken.append("correspondence (model vs implementation): case %s: %s" % mism[0])
    if broken and not afails and not bfails and not san:
        recs2, opt2, mism2, drift2, san2, af2 = explore_api(chk, harness, 300, "search")
        jobs2, bf2, stats2, _c = explore_binary(chk, exe, h5, 160, "search", workers=12)
        chk.cov["search"] = {"api_cases": len(recs2), "program_runs": len(jobs2), "failures": len(af2) + len(bf2) + (1 if san2 else 0)}
        if san2:
            chk.violation("C17 violated: sanitizer report in the API harness: %s; broken: %s" % (san2[:200], broken[0][:200]),
                          "# harness aborted\n" + san2 + "\n" + "".join(opt2.values())[:200000], tag="search_sanitizer")
        elif bf2:
            k, cfg, a, f = bf2[0]
            chk.violation("C17 violated: %s; broken: %s" % (f[:300], broken[0][:200]), replay_text(cfg, a, f), tag="search_prog_%d" % k)
        elif af2:
            r, f = af2[0]
            chk.violation("C17 violated: %s; broken: %s" % (f, broken[0][:200]), "# C17 API oracle failure: %s\n%s" % (f, r["optext"]),
                          tag="search_api_" + r["id"])
        else:
            txt = "# C17 no longer shown; no failing input found by the search\n# %s\n" % (
                "\n# ".join(b.replace("\n", "\n# ") for b in broken))
            if mism and mism[0][0] in optexts:
                txt += "# first differing correspondence case follows\n" + optexts[mism[0][0]]
            chk.violation("C17 no longer shown: " + broken[0][:400], txt, tag="unproved", found_input=False)


def replay(chk, path):
    with open(path) as f:
        txt = f.read()
    print(txt[:3000])
    if "\nrun\n" in txt:
        harness = lib.build_harness()
        a, b, rc, err, rc2, err2 = C.run_both(harness, txt, "replay")
        print("\n".join(l[:200] for l in a[:40]))
        print(err[-2000:])
