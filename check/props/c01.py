"""C01 — every transport step conserves the charge of a distribution inside the grid."""
import math
import os
import sys

sys.path.insert(0, os.path.dirname(os.path.dirname(os.path.abspath(__file__))))
import lib  # noqa
import cases as C  # noqa
import corr  # noqa
import kickcommon as K  # noqa
from lib import f32, f2h  # noqa

MODULES = ["InovesaModel.Props.C01", "InovesaModel.Props.C01FP", "InovesaModel.Props.Whole", "InovesaModel.Props.TieKick", "InovesaModel.Props.TieFPApply"]
LEVEL = "proof"
U = 2.0 ** -24


# ------------------------------------------------------------------ Fokker-Planck cases

def fp_case(cid, n, nb, dt, fpt, e1, pmin, pmax, data):
    return ("fp %s %d %d %d %d 0\nextra %s\ndata %s\nrun\n"
            % (cid, n, nb, dt, fpt, " ".join(f2h(x) for x in [e1, -6.0, 6.0, pmin, pmax]),
               " ".join(f2h(x) for x in data)))


def ruler_zerobin(n, pmin, pmax):
    a = f32(pmin + pmax)
    b = f32(pmin - pmax)
    q = f32(f32(a / b) + 1.0)
    return f32(f32(q * float(n - 1)) / 2.0)


def gen_fp_cases(rng, count, sizes, prefix="f"):
    out = []
    for k in range(count):
        n = rng.choice(sizes)
        nb = rng.choice([1, 1, 2])
        dt = rng.choice([3, 4])
        fpt = k % 4
        e1 = f32(10 ** rng.uniform(-4, -0.8))
        sh = rng.choice([0.0, 0.0, rng.uniform(-2.5, 2.5)])
        pmin, pmax = f32(-6 + sh), f32(6 + sh)
        yc = ruler_zerobin(n, pmin, pmax)
        kind = rng.choice(["impulses", "interior", "noise"])
        data = [0.0] * (nb * n * n)
        if kind == "impulses":
            # line x of bunch 0 carries a unit impulse in column x: output line x = column x of A
            for x in range(n):
                data[x * n + x] = 1.0
        elif kind == "interior":
            lo, hi = (2, n - 3) if dt == 3 else (4, n - 5)
            jc = int(yc)
            for b in range(nb):
                for x in range(n):
                    for y in range(lo, hi + 1):
                        if dt == 4 and (jc - 3 <= y <= jc + 2):
                            continue
                        data[b * n * n + x * n + y] = f32(rng.uniform(-1, 1))
        else:
            data = [f32(rng.uniform(-1, 1)) for _ in range(nb * n * n)]
        cid = "%s%d" % (prefix, k)
        out.append(dict(id=cid, n=n, nb=nb, dt=dt, fpt=fpt, e1=e1, pmin=pmin, pmax=pmax, yc=yc,
                        kind=kind, data=data,
                        optext=fp_case(cid, n, nb, dt, fpt, e1, pmin, pmax, data)))
    return out


def fp_weight_scale(rec):
    delta = (rec["pmax"] - rec["pmin"]) / (rec["n"] - 1)
    pm = max(abs(rec["pmin"]), abs(rec["pmax"]))
    return 1 + rec["e1"] * (1 + 4 / (delta * delta) + 2 * pm / delta)


def oracle_fp(rec, lines):
    """column sums (impulse cases) and conservation (interior cases) on the implementation"""
    out = corr.floats_of(lines, "out")
    if out is None:
        return "no output"
    n, nb, dt = rec["n"], rec["nb"], rec["dt"]
    ws = fp_weight_scale(rec)
    if rec["kind"] == "impulses":
        jc = int(rec["yc"]) if rec["yc"] >= 0 else 0
        for s in range(n):
            col = out[s * n:(s + 1) * n]
            cs = math.fsum(col)
            tol = 64 * U * ws
            if dt == 3:
                interior = 2 <= s <= n - 3
                near = False
            else:
                interior = (3 <= s and s + 2 < jc and s + 5 <= n) or (jc + 2 <= s and 4 <= s and s + 4 <= n)
                # (columns within 4 cells of the border also feed the zeroed border rows: not judged here)
                near = (jc - 2 <= s < jc + 2) and 4 <= jc and jc + 5 <= n and 4 <= s and s + 4 <= n
            if interior and not abs(cs - 1.0) <= tol:
                return "column %d of the operator sums to %r (|defect| > %g)" % (s, cs, tol)
            if near and rec["fpt"] in (0, 2) and not abs(cs - 1.0) <= tol:
                return "column %d next to the stencil switch sums to %r without damping" % (s, cs)
            if near and rec["fpt"] in (1, 3):
                # defect must be proportional to e1: |colsum-1| <= e1 * kappa, |kappa| <= (|p|/delta + 2)
                delta = (rec["pmax"] - rec["pmin"]) / (n - 1)
                kap = 3.0 + 2.0
                if not abs(cs - 1.0) <= rec["e1"] * kap + tol:
                    return "column %d next to the stencil switch: defect %g exceeds e1*%g" % (
                        s, cs - 1.0, kap)
        return None
    if rec["kind"] == "interior":
        tin, tout = math.fsum(rec["data"]), math.fsum(out)
        bud = 64 * U * ws * sum(abs(x) for x in rec["data"]) + 1e-30
        if not abs(tout - tin) <= bud:
            return "charge %r -> %r (defect %g, budget %g)" % (tin, tout, tout - tin, bud)
    return None


# ------------------------------------------------------------------ identity cases

def gen_ident_cases(rng, count, prefix="i"):
    out = []
    for k in range(count):
        n = rng.choice([4, 7, 16])
        nb = rng.choice([1, 2, 3])
        data = [f32(rng.uniform(-1, 1)) for _ in range(nb * n * n)]
        cid = "%s%d" % (prefix, k)
        out.append(dict(id=cid, n=n, nb=nb, data=data,
                        optext="ident %s %d %d\ndata %s\nrun\n" % (cid, n, nb, " ".join(f2h(x) for x in data))))
    return out


def oracle_ident(rec, lines):
    out = corr.hexes_of(lines, "out")
    if out != [f2h(x) for x in rec["data"]]:
        return "identity step changed the data"
    return None


# ------------------------------------------------------------------ driver

def explore(chk, harness, nk, nf, ni, sizes, tag):
    rng = lib.Rng(chk.seed, "C01/" + tag)
    krecs = K.gen_kick_cases(rng, nk, sizes) + ([K.table_edge_witness()] if tag == "main" else [])
    frecs = gen_fp_cases(rng, nf, [s for s in sizes if s >= 8] or [8])
    irecs = gen_ident_cases(rng, ni)
    optexts = {r["id"]: r["optext"] for r in krecs + frecs + irecs}
    A, B, mism, drift, san = corr.run_correspondence(chk, harness, optexts, tag)
    fails = []
    for r in krecs:
        f = K.oracle_conservation(r, A.get(r["id"], []))
        if f:
            fails.append((r, "kick " + f))
    for r in frecs:
        f = oracle_fp(r, A.get(r["id"], []))
        if f:
            fails.append((r, "fokker-planck " + f))
    for r in irecs:
        f = oracle_ident(r, A.get(r["id"], []))
        if f:
            fails.append((r, "identity " + f))
    return krecs, frecs, irecs, optexts, mism, drift, san, fails


def shrink_note(rec):
    keys = [k for k in ("axis", "n", "it", "nb", "lb", "fam", "dfam", "dt", "fpt", "e1", "kind", "interior")
            if k in rec]
    return ", ".join("%s=%s" % (k, rec[k]) for k in keys)


def run(chk):
    ok, det = lib.prove(chk, MODULES, min_examples=2)
    harness = lib.build_harness()
    quick = chk.tier == "quick"
    sizes = [4, 5, 8, 16, 17, 24] if quick else [4, 5, 8, 9, 16, 17, 24, 32, 33, 48, 64]
    nk, nf, ni = (180, 48, 6) if quick else (4000, 800, 30)
    krecs, frecs, irecs, optexts, mism, drift, san, fails = explore(chk, harness, nk, nf, ni, sizes, "main")
    allrecs = krecs + frecs + irecs
    chk.cov["evaluations"] = len(allrecs)
    chk.cov["distinct_nontrivial"] = len({r["optext"] for r in allrecs
                                          if any(x != 0.0 for x in r["data"])})
    chk.cov["rule"] = ("kick cases: offset family x data family x order x axis x bunches, seeded; "
                       "FP cases: stencil x FP variant x e1 x grid shift x {operator columns via impulses, "
                       "interior data, noise}; non-trivial = non-zero data; distinct = distinct op text")
    chk.cov["distribution"] = K.distribution(krecs)
    chk.cov["fp_distribution"] = {k: sum(1 for r in frecs if r["kind"] == k) for k in ("impulses", "interior", "noise")}
    chk.cov["interior_oracle_cases"] = sum(1 for r in krecs if r["interior"])
    chk.cov["correspondence"] = {"cases": len(allrecs), "mismatches": len(mism), "bitwise_drift": drift}
    chk.cov["samples"] = [
        {"case": krecs[0]["optext"][:400]},
        {"theorem": "Inovesa.Props.C01.kick_line_conserves: interior line => sum of applyLine = sum of the line, all n<2^31, it in 1..4, jd, xip, data"},
        {"theorem": "Inovesa.Props.C01FP.fp3_colsum_one / fp4_colsum_one / fp4_colsum_defect on the generated stencil"},
    ]
    chk.assumptions += [
        "theorems are about the real-arithmetic semantics (any field of characteristic 0); float rounding is budgeted by the oracle, not proved",
        "Gen/Coeff.lean and Gen/FPStencil.lean are regenerated from src/SM/SourceMap.cpp and src/SM/FokkerPlanckMap.cpp on every run",
        "Model/KickMap.lean, Model/FokkerPlanck.lean, Model/Ruler.lean are hand-written and validated bitwise against the C++ on the cases above",
    ]
    byid = {r["id"]: r for r in allrecs}
    if san:
        chk.violation("sanitizer/abort in the implementation while applying maps: " + san[:300],
                      "# harness aborted\n" + san + "\n" + "".join(optexts.values())[:200000], tag="sanitizer")
    new_fails = []
    for r, f in fails:
        key = "kick-table-edge" if r.get("table_edge") else None
        if key and chk.known_match(key):
            chk.violation(f, "", key=key)   # listed finding: KNOWN-FINDING line, no alarm
            continue
        new_fails.append((r, f))
    fails = new_fails
    for r, f in fails:
        chk.violation("charge not conserved: %s [%s]" % (f, shrink_note(r)),
                      "# C01 oracle failure: %s\n# %s\n%s" % (f, shrink_note(r), r["optext"]),
                      tag="oracle_" + r["id"])
        break
    broken = []
    if not ok:
        broken.append("proof obligation: " + str(det.get("broken"))[:1500])
    if mism:
        broken.append("correspondence (model vs implementation): case %s: %s" % mism[0])
    if broken and not fails and not san:
        # search harder for a failing input before reporting "none found"
        krecs2, frecs2, irecs2, opt2, mism2, drift2, san2, fails2 = explore(
            chk, harness, 1500, 400, 10, [4, 5, 8, 16, 17, 24, 32], "search")
        chk.cov["search"] = {"cases": len(krecs2) + len(frecs2), "oracle_failures": len(fails2)}
        fails2 = [(r, f) for r, f in fails2 if not (r.get("table_edge") and chk.known_match("kick-table-edge"))]
        if fails2:
            r, f = fails2[0]
            chk.violation("charge not conserved: %s [%s]; broken: %s" % (f, shrink_note(r), broken[0][:300]),
                          "# C01 oracle failure found by search: %s\n# %s\n# broken: %s\n%s"
                          % (f, shrink_note(r), "\n# ".join(broken), r["optext"]), tag="search_" + r["id"])
        else:
            first = mism[0] if mism else None
            txt = "# C01 no longer shown; no failing input found by the search (%d cases)\n# %s\n" % (
                len(krecs2) + len(frecs2), "\n# ".join(b.replace("\n", "\n# ") for b in broken))
            if first and first[0] in byid:
                txt += "# first differing correspondence case follows\n" + byid[first[0]]["optext"]
            chk.violation("C01 no longer shown: " + broken[0][:400], txt, tag="unproved", found_input=False)


def replay(chk, path):
    harness = lib.build_harness()
    with open(path) as f:
        txt = f.read()
    a, b, rc, err, rc2, err2 = C.run_both(harness, txt, "replay")
    A = C.split_cases(a)
    print("\n".join(a[:50]))
    if rc != 0:
        chk.violation("replay: harness aborted", txt, tag="replay")
    chk.cov["evaluations"] = len(A)
