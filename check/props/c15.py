"""C15 — tracked particles follow the flow of the distribution and never leave the grid."""
import math
import os
import sys

sys.path.insert(0, os.path.dirname(os.path.dirname(os.path.abspath(__file__))))
import lib  # noqa
import cases as C  # noqa
import corr  # noqa
import kickcommon as K  # noqa
from lib import f32, f2h, h2f  # noqa

MODULES = ["InovesaModel.Props.C15", "InovesaModel.Props.TieTrack", "InovesaModel.Props.TieKick"]
LEVEL = "proof"


def blob_cases(rng, count, sizes):
    """a bilinear 2x2 blob of unit charge whose centroid is the particle position"""
    recs = []
    for k in range(count):
        axis = rng.choice("xy")
        n = rng.choice(sizes)
        it = rng.choice([2, 3, 4])
        fam = rng.choice(["frac", "affine", "smooth", "wholerow", "mixed"])
        off = C.offset_family(rng, n, 1, fam, rng.choice([0.9, 2.5]))
        ix, iy = rng.randint(5, n - 7), rng.randint(5, n - 7)
        fx, fy = f32(rng.random()), f32(rng.random())
        if rng.random() < 0.2:
            fx = 0.0
        px, py = f32(ix + fx), f32(iy + fy)
        data = [0.0] * (n * n)
        for dx, wx in ((0, 1 - fx), (1, fx)):
            for dy, wy in ((0, 1 - fy), (1, fy)):
                data[(ix + dx) * n + (iy + dy)] = f32(wx * wy)
        edge = [(0.0, 0.0), (float(n - 1), float(n - 1)), (f32(n - 1.0), 0.5), (0.25, f32(n - 1.0)), (1.0, 1.0)]
        parts = [(px, py)] + edge
        cid = "b%d" % k
        rec = dict(id=cid, axis=axis, n=n, it=it, nb=1, lb=0, off=off, data=data, parts=parts, fam=fam, dfam="blob",
                   pos=(px, py))
        rec["interior"] = K.is_interior(axis, n, it, 1, 0, off, data)
        rec["table_edge"] = K.touches_table_edge(axis, n, it, 1, 0, off, data)
        rec["optext"] = C.kick_case(cid, axis, n, it, 1, -1, off, data, parts)
        recs.append(rec)
    return recs


def oracle_blob(rec, lines):
    out = corr.floats_of(lines, "out")
    parts = corr.floats_of(lines, "parts")
    if out is None or parts is None:
        return "no output"
    n = rec["n"]
    # every tracked coordinate along the kick stays on the grid ([1, n-1])
    for i in range(0, len(parts), 2):
        x, y = parts[i], parts[i + 1]
        c = x if rec["axis"] == "x" else y
        if not (1.0 <= c <= n - 1) or math.isnan(c):
            return "tracked particle %d left the grid: coordinate %r after a %s kick (n=%d)" % (i // 2, c, rec["axis"], n)
    if not rec["interior"] or rec["table_edge"]:
        return None
    tot = math.fsum(out)
    cx = math.fsum(out[x * n + y] * x for x in range(n) for y in range(n)) / tot
    cy = math.fsum(out[x * n + y] * y for x in range(n) for y in range(n)) / tot
    px, py = parts[0], parts[1]
    # clamp inactive?
    if not (1.0 < px < n - 1 and 1.0 < py < n - 1):
        return None
    if abs(cx - px) > 2e-5 * n or abs(cy - py) > 2e-5 * n:
        return ("after a %s kick (order %d) the particle is at (%.6f, %.6f) but the blob placed on it has its centre at "
                "(%.6f, %.6f)" % (rec["axis"], rec["it"], px, py, cx, cy))
    return None


def track_cases(rng, count):
    recs = []
    for k in range(count):
        n = rng.choice([32, 33, 48])
        dt = rng.choice([3, 4])
        fptrack = k % 4
        e1 = f32(rng.choice([0.005, 0.01, 0.02]))
        sh = rng.choice([0.0, 0.0, rng.uniform(-1.5, 1.5)])
        pmin, pmax = f32(-6 + sh), f32(6 + sh)
        delta = (pmax - pmin) / (n - 1)
        npart = 1500 if fptrack == 3 else 60
        steps = int(4.0 / e1) if fptrack == 3 else 200
        yc = (n - 1) / 2.0 * (1 + (pmin + pmax) / (pmin - pmax))
        ystart = f32(yc + rng.choice([0.0, 0.0, 3.0, -4.0]))
        if rng.random() < 0.15:
            ystart = rng.choice([0.0, float(n - 1)])      # particles on the grid edge
        if k < 8:
            # every tracking model once from each edge row (all stencil weights are zero there: 0/0 in the
            # charge-weighted model, which the clamp must absorb)
            ystart = 0.0 if k < 4 else float(n - 1)
        data = [f32(math.exp(-0.5 * ((pmin + y * delta)) ** 2)) for x in range(n) for y in range(n)]
        cid = "t%d" % k
        # the Fokker-Planck variant of the map: a grid that is NOT damped (no term at all, or diffusion only) does not
        # pull its particles towards zero energy either (tracking model 1 takes the drift from the map's own rows)
        fptype = 3
        if fptrack == 1 and k >= 8 and (k // 4) % 2 == 0:
            fptype = rng.choice([0, 2])
            ystart = f32(yc + rng.choice([5.0, -6.0, 3.0]))
        recs.append(dict(id=cid, n=n, fptrack=fptrack, fptype=fptype, e1=e1, delta=delta, yc=yc, ystart=ystart, steps=steps,
                         optext="fptrack %s %d %d %d %d %d %d %d\nextra %s\ndata %s\nrun\n" % (
                             cid, n, dt, fptrack, npart, steps, max(1, steps // 10), fptype,
                             " ".join(f2h(x) for x in [e1, -6.0, 6.0, pmin, pmax, ystart]),
                             " ".join(f2h(x) for x in data))))
    return recs


def oracle_track(rec, lines):
    vals = [[h2f(x) for x in l.split()[1:]] for l in lines if l.startswith("vals")]
    if len(vals) < 3:
        return "no tracking output"
    n = rec["n"]
    ymin, ymax, nonfinite = vals[-1]
    if nonfinite:
        return "tracking produced %d non-finite coordinates" % nonfinite
    if rec["fptrack"] != 0 and not (1.0 <= ymin and ymax <= n - 1):
        return "tracked energies left the grid: range [%r, %r], grid rows 0..%d (tracking model %d)" % (
            ymin, ymax, n - 1, rec["fptrack"])
    if rec["fptrack"] == 1 and rec.get("fptype", 3) in (0, 2):
        k, mean, std = vals[-2]
        if abs(mean - rec["ystart"]) > 0.3:
            return ("tracking model 1 with a map without damping (FPType %d): the particles moved from row %.2f to %.2f in %d "
                    "steps although the charge around them is not damped" % (rec["fptype"], rec["ystart"], mean, int(k)))
    if rec["fptrack"] == 3:
        k, mean, std = vals[-2]
        want_std = 1.0 / rec["delta"] / math.sqrt(1 - rec["e1"] / 2)
        # mean after k steps (theorem stochastic_mean_relaxes): yc + (ystart - yc) (1-e1)^k; the start may be a
        # grid edge 30 cells away, of which e^-4 is still left after 4/e1 steps
        resid = (max(1.0, min(rec["ystart"], n - 1.0)) - rec["yc"]) * (1 - rec["e1"]) ** int(k)
        if abs(mean - rec["yc"] - resid) > 0.12 * want_std:
            return ("stochastic tracking: ensemble mean %.3f after %d steps, zero-energy bin at %.3f (natural width %.3f cells)"
                    % (mean, int(k), rec["yc"], want_std))
        if abs(std - want_std) > 0.08 * want_std:
            return "stochastic tracking: ensemble width %.3f cells after %d steps, natural width %.3f" % (std, int(k), want_std)
    return None


def dyn_cases(rng, count):
    """tracked particles under the DYNAMIC RF map (phase modulation / noise: the kick changes from step to step):
    after every apply() the particles are moved by applyToAll(), as in the main loop"""
    recs = []
    for k in range(count):
        n = rng.choice([16, 17, 24])
        it = rng.choice([2, 3, 4])
        steps = rng.randint(3, 6)
        sps = rng.choice([100, 200])
        box = [f32(-6), f32(6), f32(-6), f32(6), f32(1.2e-3), f32(6.11e5)]
        angle = f32(2 * math.pi / sps)
        # "ampl"/"phase": one kind of noise only (a source map cached on the other quantity goes stale while the
        # displacement field the particles read is fresh)
        mode = ["mod", "noise", "both", "ampl", "phase"][k % 5]
        # (amplitudes chosen so that one step displaces the charge by a fraction of a cell, differently in every step)
        ps = f32(rng.uniform(0.01, 0.05)) if mode in ("noise", "both", "phase") else 0.0
        as_ = f32(rng.uniform(0.05, 0.3)) if mode in ("noise", "both", "ampl") else 0.0
        ma = f32(rng.uniform(0.02, 0.1)) if mode in ("mod", "both") else 0.0
        mt = f32(rng.uniform(0.05, 0.2)) if mode in ("mod", "both") else 0.0
        e = box + [angle, f32(4.5e8), f32(9e6 / (8e3 * sps)), f32(1e6), f32(4.5e4), ps, as_, ma, mt]
        c0 = (n - 1) / 2.0
        data = [f32(math.exp(-0.5 * (((x - c0) / (n / 5.0)) ** 2 + ((y - c0) / (n / 10.0)) ** 2))) for x in range(n) for y in range(n)]
        parts = [(f32(c0 + rng.uniform(-3, 3)), f32(c0 + rng.uniform(-2, 2))) for _ in range(6)]
        cid = "y%d" % k
        recs.append(dict(id=cid, n=n, it=it, steps=steps, mode=mode, parts=parts, data=data,
                         optext="dynrf %s %d %d 1 lin %d\nextra %s\ndata %s\nparts %s\nops %s\nrun\n" % (
                             cid, n, it, steps, " ".join(f2h(x) for x in e), " ".join(f2h(x) for x in data),
                             " ".join(f2h(v) for p in parts for v in p), " ".join(["a"] * steps))))
    return recs


def oracle_dyn(rec, lines):
    """the particle must move with the charge around it: its displacement in step k is the (interpolated) shift of
    the column centroids of the grid in the SAME step"""
    n = rec["n"]
    before = [[float(rec["data"][x * n + y]) for y in range(n)] for x in range(n)]
    cb = [sum(y * v for y, v in enumerate(col)) / sum(col) for col in before]
    k = -1
    out = None
    for l in lines:
        t = l.split()
        if t[0] == "ops" and t[1] == "a":
            k += 1
        elif t[0] == "out":
            out = [h2f(x) for x in t[1:]]
        elif t[0] == "parts" and out is not None:
            after = [out[x * n:(x + 1) * n] for x in range(n)]
            ca = [sum(y * v for y, v in enumerate(col)) / sum(col) for col in after]
            pv = [h2f(x) for x in t[1:]]
            for j, (px, py) in enumerate(rec["parts"]):
                i = int(math.floor(px))
                f = px - i
                want = py + (1 - f) * (ca[i] - cb[i]) + f * (ca[i + 1] - cb[i + 1])
                got = pv[2 * j + 1]
                if abs(got - want) > 2e-3 + 2e-3 * abs(want - py):
                    return ("dynamic RF, step %d: particle %d at (%.3f, %.3f) is moved to y=%.4f, the charge of its column moves "
                            "to y=%.4f" % (k, j, px, py, got, want))
    if k < 0:
        return "no output"
    return None


def drift_cases(rng, count):
    """tracked particles under the DRIFT map with higher orders of the momentum compaction (alpha1, alpha2 != 0): the
    particle must be moved by the displacement field the grid is transported with (interpolated between its two rows)"""
    recs = []
    for k in range(count):
        n = rng.choice([16, 17, 24, 33])
        it = rng.choice([2, 3, 4])
        steps = rng.choice([50, 200, 1000])
        angle = f32(2 * math.pi / steps)
        shx, shy = rng.uniform(-2, 2), rng.uniform(-2, 2)
        box = [f32(-6 + shx), f32(6 + shx), f32(-6 + shy), f32(6 + shy), f32(1.2e-3), f32(6.11e5)]
        e = box + [angle, f32(angle * rng.uniform(-3, 3)), f32(angle * rng.uniform(-30, 30)), f32(1.3e9)]
        if k % 4 == 0:
            e[7], e[8] = 0.0, 0.0
        data = C.data_family(rng, n, 1, "gauss", 2)
        parts = [(f32(rng.uniform(1, n - 2)), f32(rng.uniform(0, n - 1.001))) for _ in range(6)]
        cid = "v%d" % k
        recs.append(dict(id=cid, n=n, parts=parts,
                         optext="drift %s %d %d 1\nextra %s\ndata %s\nparts %s\nrun\n" % (
                             cid, n, it, " ".join(f2h(x) for x in e), " ".join(f2h(x) for x in data),
                             " ".join(f2h(x) for p in parts for x in p))))
    return recs


def oracle_drift(rec, lines):
    off = corr.hexes_of(lines, "off")
    got = corr.hexes_of(lines, "parts")
    if off is None or got is None:
        return "no output of the drift case"
    n = rec["n"]
    o = [h2f(x) for x in off]
    g = [h2f(x) for x in got]
    for j, (px, py) in enumerate(rec["parts"]):
        yi = int(math.floor(py))
        yf = py - yi
        want = px - ((1 - yf) * o[yi] + yf * o[yi + 1]) if yi + 1 < n else px
        want = max(1.0, min(want, n - 1.0))
        if abs(g[2 * j] - want) > 1e-4 * (1 + abs(want)) or g[2 * j + 1] != py:
            return ("drift with higher-order momentum compaction: particle %d at (%.4f, %.4f) was moved to x = %.5f, the "
                    "displacement field of the grid gives %.5f" % (j, px, py, g[2 * j], want))
    return None


def explore(chk, harness, nblob, ntrack, sizes, tag):
    rng = lib.Rng(chk.seed, "C15/" + tag)
    brecs = blob_cases(rng, nblob, sizes)
    trecs = track_cases(rng, ntrack)
    drecs = dyn_cases(rng, max(5, ntrack // 2))
    vrecs = drift_cases(rng, max(6, ntrack // 2))
    optexts = {r["id"]: r["optext"] for r in brecs + trecs + drecs + vrecs}
    A, B, mism, drift, san = corr.run_correspondence(chk, harness, {r["id"]: r["optext"] for r in brecs + drecs + vrecs}, tag)
    mism = [(cid, d) for cid, d in mism if not any(l.startswith("skip") for l in B.get(cid, []))]
    # tracking statistics: implementation only (PRNG inside the class)
    txt = "".join(r["optext"] for r in trecs)
    a, _, rc, err, _, _ = C.run_both(harness, txt, "C15t" + tag)
    At = C.split_cases(a)
    if rc != 0:
        san = san or ("harness exited with status %d\n%s" % (rc, err[-2000:]))
    fails = []
    for r in brecs:
        f = oracle_blob(r, A.get(r["id"], []))
        if f:
            fails.append((r, f))
    for r in trecs:
        f = oracle_track(r, At.get(r["id"], []))
        if f:
            fails.append((r, f))
    for r in drecs:
        f = oracle_dyn(r, A.get(r["id"], []))
        if f:
            fails.append((r, f))
    for r in vrecs:
        f = oracle_drift(r, A.get(r["id"], []))
        if f:
            fails.append((r, f))
    chk.cov["drift_tracking_cases"] = chk.cov.get("drift_tracking_cases", 0) + len(vrecs)
    chk.cov["dynamic_rf_tracking_cases"] = chk.cov.get("dynamic_rf_tracking_cases", 0) + len(drecs)
    return brecs, trecs, optexts, mism, drift, san, fails


def run(chk):
    ok, det = lib.prove(chk, MODULES, min_examples=0)
    harness = lib.build_harness()
    quick = chk.tier == "quick"
    nblob, ntrack = (120, 12) if quick else (4000, 80)
    sizes = [16, 17, 24, 32] if quick else [16, 17, 24, 32, 48, 64]
    brecs, trecs, optexts, mism, drift, san, fails = explore(chk, harness, nblob, ntrack, sizes, "main")
    chk.cov["evaluations"] = len(brecs) + len(trecs)
    chk.cov["distinct_nontrivial"] = len({r["optext"] for r in brecs + trecs})
    chk.cov["rule"] = ("blob cases: unit-charge bilinear blob on a random particle position, kicked by random displacement "
                       "fields (orders 2-4, both directions) plus particles on the grid edges; tracking cases: ensembles "
                       "under the four Fokker-Planck tracking models for several damping times (stochastic: 1500 particles), "
                       "starts at the zero-energy bin, off it, and on the grid edge; distinct = distinct op text")
    chk.cov["distribution"] = dict(K.distribution(brecs), **{"fptrack=%d" % m: sum(1 for r in trecs if r["fptrack"] == m) for m in range(4)})
    chk.cov["correspondence"] = {"cases": len(brecs), "mismatches": len(mism), "bitwise_drift": drift,
                                 "what": "KickMap::applyTo and apply vs Model/KickMap.lean (applyToCoord, applyX/Y)"}
    chk.cov["samples"] = [{"case": brecs[0]["optext"][:200]},
                          {"theorem": "Inovesa.Props.C15.kick_clamps, clamp_bounds, lookup_defined, applyTo_moves, blob_centroid (with C03.kick_line_first_moment), stochastic_mean, stochastic_variance_fixed_point"}]
    chk.assumptions += [
        "std::mt19937/normal_distribution are not modelled: the stochastic model is decided by the recurrence theorems (mean, variance fixed point) and measured on ensembles (tolerance 8% width, 0.12 sigma mean)",
        "approximation models 1 and 2: only the range claim is checked (they drift by design)",
        "model after fix 7ca92b2 (stochastic model damps towards the zero-energy bin and clamps)",
    ]
    if san:
        chk.violation("sanitizer/abort in the implementation: " + san[:300],
                      "# harness aborted\n" + san + "\n" + "".join(optexts.values())[:100000], tag="sanitizer")
    for r, f in fails[:1]:
        chk.violation("C15 violated: " + f, "# C15 oracle failure: %s\n%s" % (f, r["optext"]), tag="oracle_" + r["id"])
    broken = []
    if not ok:
        broken.append("proof obligation: " + str(det.get("broken"))[:1500])
    if mism:
        broken.append("correspondence (model vs implementation): case %s: %s" % mism[0])
    if broken and not fails and not san:
        b2, t2, opt2, mism2, drift2, san2, fails2 = explore(chk, harness, 800, 16, [16, 17, 24, 32], "search")
        chk.cov["search"] = {"cases": len(b2) + len(t2), "oracle_failures": len(fails2)}
        if fails2:
            r, f = fails2[0]
            chk.violation("C15 violated: %s; broken: %s" % (f, broken[0][:300]),
                          "# C15 oracle failure found by search: %s\n%s" % (f, r["optext"]), tag="search_" + r["id"])
        else:
            txt = "# C15 no longer shown; no failing input found by the search\n# %s\n" % (
                "\n# ".join(b.replace("\n", "\n# ") for b in broken))
            if mism and mism[0][0] in optexts:
                txt += "# first differing correspondence case follows\n" + optexts[mism[0][0]]
            chk.violation("C15 no longer shown: " + broken[0][:400], txt, tag="unproved", found_input=False)


def replay(chk, path):
    harness = lib.build_harness()
    with open(path) as f:
        txt = f.read()
    a, b, rc, err, rc2, err2 = C.run_both(harness, txt, "replay")
    print("\n".join(l[:200] for l in a[:40]))
    chk.cov["evaluations"] = len(C.split_cases(a))
