"""Entry point of every registered check:  ./check/run <Cxx> [--tier quick|thorough] [--replay f]"""
import argparse
import importlib
import os
import sys
import traceback

HERE = os.path.dirname(os.path.abspath(__file__))
sys.path.insert(0, HERE)
sys.path.insert(0, os.path.join(HERE, "props"))
import lib  # noqa


def main():
    ap = argparse.ArgumentParser()
    ap.add_argument("pid")
    ap.add_argument("--tier", default=os.environ.get("VERIF_TIER", "quick"))
    ap.add_argument("--replay", default=None)
    a = ap.parse_args()
    tier = a.tier if a.tier in ("quick", "thorough") else "quick"
    chk = lib.Check(a.pid, tier)
    chk.cov["trusted_base"] = list(lib.TRUSTED_BASE)
    try:
        mod = importlib.import_module(a.pid.lower())
    except ImportError:
        print("no check for", a.pid, file=sys.stderr)
        return 2
    try:
        if a.replay:
            mod.replay(chk, a.replay)
        else:
            mod.run(chk)
    except lib.BuildError as e:
        # /repo's working tree does not compile with the harness: nothing is shown
        chk.violation("build of the correspondence harness from /repo failed: %s" % str(e)[:600],
                      "harness build failed\n" + str(e), tag="build", found_input=False)
    except Exception:
        tb = traceback.format_exc()
        lib.log(tb)
        chk.violation("check crashed: property no longer shown", "check crashed\n" + tb,
                      tag="crash", found_input=False)
    return chk.finish(level=getattr(mod, "LEVEL", "proof"))


if __name__ == "__main__":
    sys.exit(main())
