#!/bin/sh
# ./check/allseeds.sh <seed> ...   runs every quick check at the given VERIF_SEED values on the tree as it is and prints
# one line per check (used to look for false alarms on the clean tree; evidence goes to a scratch directory)
cd "$(dirname "$0")/.."
mkdir -p .cache/allseeds/evidence .cache/allseeds/replays
for s in "$@"; do
  for i in 01 02 03 04 05 06 07 08 09 10 11 12 13 14 15 16 17 18 19 20; do
    out=$(VERIF_SEED=$s VERIF_EVIDENCE_DIR=$PWD/.cache/allseeds/evidence VERIF_REPLAY_DIR=$PWD/.cache/allseeds/replays ./check/run C$i --tier quick 2>&1)
    rc=$?
    echo "seed=$s C$i exit=$rc $(echo "$out" | grep -c '^KNOWN-FINDING') known $(echo "$out" | grep '^VIOLATION' | head -2 | tr '\n' ' ')"
    if [ $rc -ne 0 ]; then echo "$out" | grep "^\[C$i\]" | head -3; fi
  done
done
