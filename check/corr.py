"""Correspondence comparison impl vs model (DESIGN.md §3.3, §4.2)."""
import math
import os
import sys

sys.path.insert(0, os.path.dirname(os.path.abspath(__file__)))
from lib import h2f  # noqa
import cases as C  # noqa

U = 2.0 ** -24

FLOAT_TAGS = {"out", "coeff", "ruler", "parts", "off", "proj", "wake", "wpad", "spec", "pow", "pad", "vals"}
# compared against a binary64 naive-DFT model: FFT rounding of the float implementation
LOOSE_TAGS = {"wake", "wpad", "spec", "pow"}
EXACT_TAGS = {"undefined", "error", "ints", "sched", "txt"}


def fclose(a, b, linescale, loose=False, rel=1e-5):
    if a == b:
        return True
    if loose:
        fa, fb = h2f(a), h2f(b)
        if math.isnan(fa) or math.isnan(fb) or math.isinf(fa) or math.isinf(fb):
            return (math.isnan(fa) and math.isnan(fb)) or fa == fb
        return abs(fa - fb) <= 2e-5 * linescale + rel * max(abs(fa), abs(fb))
    fa, fb = h2f(a), h2f(b)
    if math.isnan(fa) and math.isnan(fb):
        return True
    if math.isnan(fa) or math.isnan(fb) or math.isinf(fa) or math.isinf(fb):
        return fa == fb
    return abs(fa - fb) <= 32 * U * max(abs(fa), abs(fb)) + 8 * U * linescale


def line_scale(toks, float_pos):
    m = 0.0
    for i in float_pos:
        v = h2f(toks[i])
        if math.isfinite(v):
            m = max(m, abs(v))
    return m


def compare_line(x, y):
    """returns (ok, drift, detail)"""
    if x == y:
        return True, 0, None
    xs, ys = x.split(), y.split()
    if not xs or not ys or xs[0] != ys[0] or len(xs) != len(ys):
        return False, 0, "shape: impl %d tokens (%s) vs model %d (%s)" % (
            len(xs), xs[0] if xs else "", len(ys), ys[0] if ys else "")
    tag = xs[0]
    if tag == "tab":
        fpos = list(range(2, len(xs), 2))
        ipos = list(range(1, len(xs), 2))
    elif tag in FLOAT_TAGS:
        fpos = list(range(1, len(xs)))
        ipos = []
    else:
        return False, 0, "line '%s' differs: impl %s | model %s" % (tag, x[:200], y[:200])
    for i in ipos:
        if xs[i] != ys[i]:
            return False, 0, "%s index token %d: impl %s model %s" % (tag, i, xs[i], ys[i])
    scale = line_scale(xs, fpos)
    drift = 0
    for i in fpos:
        if xs[i] != ys[i]:
            # `pow` is a binary32 sum of up to nmax spectrum samples whose small entries carry the absolute rounding error of
            # the float FFT: judged relative to itself it needs a wider margin than the lines it is summed from
            if fclose(xs[i], ys[i], scale, tag in LOOSE_TAGS, 3e-4 if tag == "pow" else 1e-5):
                drift += 1
            else:
                return False, drift, "%s value token %d: impl %s (%g) model %s (%g)" % (
                    tag, i, xs[i], h2f(xs[i]), ys[i], h2f(ys[i]))
    return True, drift, None


def compare(A, B):
    """A, B: {case: [lines]} -> (mismatches [(case, detail)], drift count, compared cases)"""
    mism = []
    drift = 0
    for c in A:
        if c not in B:
            mism.append((c, "case missing from model output"))
            continue
        la, lb = A[c], B[c]
        if len(la) != len(lb):
            mism.append((c, "impl prints %d lines, model %d; first impl line: %s ; first model line: %s"
                         % (len(la), len(lb), (la[0][:120] if la else ""), (lb[0][:120] if lb else ""))))
            continue
        for x, y in zip(la, lb):
            ok, d, det = compare_line(x, y)
            drift += d
            if not ok:
                mism.append((c, det))
                break
    for c in B:
        if c not in A:
            mism.append((c, "case missing from implementation output"))
    return mism, drift, len(A)


def run_correspondence(chk, harness, optexts, tag):
    """optexts: {caseid: optext}. Returns (A, B, mismatches, drift, sanitizer_text)."""
    ids = list(optexts)
    # large sets are split into chunks that run side by side (cases are independent: each one resets the static sizes)
    nchunk = 1 if len(ids) <= 48 else min(14, (len(ids) + 23) // 24)
    chunks = [ids[i::nchunk] for i in range(nchunk)]

    def one(chunk):
        return C.run_both(harness, "".join(optexts[i] for i in chunk), "%s_%s" % (chk.pid, tag))
    if nchunk == 1:
        outs = [one(chunks[0])]
    else:
        from concurrent.futures import ThreadPoolExecutor
        with ThreadPoolExecutor(nchunk) as ex:
            outs = list(ex.map(one, chunks))
    A, B = {}, {}
    rc, err, rc2, err2 = 0, "", 0, ""
    for a, b, r, e, r2, e2 in outs:
        A.update(C.split_cases(a))
        B.update(C.split_cases(b))
        if r != 0 and rc == 0:
            rc, err = r, e
        if r2 != 0 and rc2 == 0:
            rc2, err2 = r2, e2
    # keep the order of the request (one op text may hold several cases, e.g. a factory table and its components)
    A = dict([(i, A[i]) for i in ids if i in A] + [(i, v) for i, v in A.items() if i not in optexts])
    B = dict([(i, B[i]) for i in ids if i in B] + [(i, v) for i, v in B.items() if i not in optexts])
    san = ""
    if rc != 0:
        san = "harness exited with status %d\n%s" % (rc, err[-3000:])
    mism, drift, n = compare(A, B)
    if rc2 != 0:
        mism.append(("driver", "model driver exited with status %d: %s" % (rc2, err2[-500:])))
    return A, B, mism, drift, san


def floats_of(lines, tag):
    for l in lines:
        t = l.split()
        if t and t[0] == tag:
            return [h2f(x) for x in t[1:]]
    return None


def hexes_of(lines, tag):
    for l in lines:
        t = l.split()
        if t and t[0] == tag:
            return t[1:]
    return None
