#!/bin/sh
# Regenerates seeded/hist-*/patch.diff as patches against /repo's HEAD (git revert of the fix
# commit in a scratch worktree), so that each historic defect can be re-applied to the current tree.
set -e
WT=/tmp/hist_wt_$$
git -C /repo worktree add -q --detach "$WT" HEAD
for d in /verif/seeded/hist-*; do
  c=$(python3 -c "import json,re;print(re.search(r'commit (\w+)',json.load(open('$d/meta.json'))['origin']).group(1))")
  git -C "$WT" checkout -q --detach HEAD 2>/dev/null
  git -C "$WT" reset -q --hard "$(git -C /repo rev-parse HEAD)"
  if git -C "$WT" revert --no-commit "$c" >/dev/null 2>&1; then
    git -C "$WT" diff HEAD > "$d/patch.diff"
    echo "$d: ok ($(wc -l < $d/patch.diff) lines)"
  else
    git -C "$WT" revert --abort 2>/dev/null || true
    echo "$d: CONFLICT reverting $c"
  fi
done
git -C /repo worktree remove --force "$WT"
