"""Writes /verif/MANIFEST.json from the table below (kept here so that the manifest stays
valid and consistent while checks are added)."""
import json
import os
import subprocess

VERIF = os.path.dirname(os.path.dirname(os.path.abspath(__file__)))

NOTE = ("Trusted base: Lean 4.33 kernel; axioms propext, Classical.choice, Quot.sound only (audited by "
        "#print axioms on every run; no sorry/admit/native_decide/bv_decide/own axioms); translator/*.py "
        "(clang typed AST -> Lean, fail-closed); correspondence harness built from /repo's working tree "
        "(ASan+UBSan+_GLIBCXX_ASSERTIONS) and comparer; IEEE binary32 rounding, libm, FFTW, HDF5, boost "
        "are modelled/assumed, not verified. 26 translator fragments regenerate Gen/*.lean from the working tree on "
        "every run; hand-model definitions are proved equal to the regenerated ones in Props/Tie*.lean (one module per "
        "fragment), which the checks that depend on them list among their proof obligations. ")

CHECKS = {
    "C01": dict(
        text="Theorems for all grid sizes < 2^31, interpolation orders 1-4, bunch counts, displacement fields and "
             "signed data: interior support => every kick line / whole train keeps its sum (real arithmetic); all "
             "interior columns of the generated Fokker-Planck stencils sum to one, the columns next to the stencil "
             "switch have a defect e1*kappa. Stated about Gen/Coeff.lean and Gen/FPStencil.lean, which are regenerated "
             "from the C++ on every run; loops/index logic are a hand model validated bitwise against the real classes.",
        note="Float rounding is budgeted by the implementation oracle, not proved. WakePotentialMap/RFKickMap/DriftMap "
             "enter as instances of KickMap::apply with their own offset fields.",
        technique="Lean 4 proof (ring identities on translated coefficients, finite-sum reindexing) + translator + bitwise correspondence",
        ref="DESIGN.md 7/C01"),
    "C02": dict(
        text="Theorems for every fractional offset f (any field of char 0) and every order: weights sum to 1, unit "
             "weight at f=0, polynomials of degree < order reproduced exactly, whole-cell displacement = shifted copy with "
             "zeros flowing in; for the translated calcCoefficiants and the hand model of updateSM/apply. Thorough tier "
             "additionally sweeps all 2^30 binary32 offsets in the C++ (support, not the proof).",
        note="Bit-for-bit clause rests on the exact theorem + IEEE facts 1*x=x, 0*x=+-0, x+-0=x (trusted) and is tested bitwise.",
        technique="Lean 4 proof (ring/field_simp on translated Lagrange weights) + translator + bitwise correspondence",
        ref="DESIGN.md 7/C02"),
    "C08": dict(
        text="Theorem: KickMap::apply on a train is the concatenation over bunches of the single-bunch map built from "
             "that bunch's table block applied to that bunch's data (all n, nb, lastbunch, tables, data), hence identical "
             "bunches stay identical. RF/drift/Fokker-Planck bunch loops: model defined bunch-wise and validated bitwise; "
             "oracle compares every bunch of a multi-bunch step with the same bunch transported alone.",
        note="History part (any number of steps) follows by induction from the one-step statement since a step is a "
             "composition of such maps; the wake block of bunch b is wakePotential[b] (C06 read-back index).",
        technique="Lean 4 proof (list/flatMap structure of the model) + bitwise correspondence + single-vs-multi-bunch oracle",
        ref="DESIGN.md 7/C08"),
    "C09": dict(
        text="Theorems for all n, nb, data, fillings (any field): after normalize() computed from a fresh integral every "
             "occupied bucket integrates to exactly its set share, empty buckets to 0, total = sum of shares; average/"
             "variance are the first/centred second moment of the bunch's own projection over its own charge; projections, "
             "charge and moments of a bunch do not depend on other bunches' data; a copy of a fresh state has equal data, "
             "projections, populations, integral and moments. Hand model validated bitwise on random op sequences (incl. the "
             "constructor's own Gaussian start distribution); its loops (Simpson weights, projections, integral, normalize, "
             "createFromProjections, constructor tail) are proved equal to the regenerated source (Props/TiePS.lean).",
        note="The sampled-Gaussian clause (mean/width up to discretisation error) is measured, not proved. Domain: equal "
             "cell size on both axes.",
        technique="Lean 4 proof (linear algebra of finite sums over the executable model) + bitwise op-sequence correspondence",
        ref="DESIGN.md 7/C09"),
}

# properties whose proof modules are merged into lean/ and whose check passes on the clean tree
READY = ["C01", "C02", "C03", "C04", "C05", "C06", "C07", "C08", "C09", "C10", "C11", "C12", "C13", "C14", "C15", "C16", "C17", "C18", "C19", "C20"]

CHECKS.update({
    "C04": dict(
        text="Theorems on the GENERATED Fokker-Planck stencil (all n, e1, delta, grid positions): column moments of order "
             "0,1,2 for the 3-point stencil in all four variants and for the 4-point stencil away from the switch row; one "
             "step maps the energy moments by m0'=m0, m1'=(1-e1)m1, m2'=(1-2e1)m2+e1(2-delta^2)m0 (interior data), with "
             "the boundary leakage as an explicit remainder carried by the four outermost columns; closed form, "
             "monotonicity, perturbed-contraction bound and convergence (over R) of the induced recurrence for "
             "0<e1<1/2; damping-only shrinks, diffusion-only grows, none = identity. The real map is iterated for "
             "several damping times and compared with the recurrence; the Lean model iterates bitwise alongside.",
        note="Pure Fokker-Planck iteration; the rotation-coupled relaxation rate of the bunch length is not proved "
             "(C03 gives the rotation). Binary-level /BunchLength,/EnergySpread series are measured in the thorough tier.",
        technique="Lean 4 proof (moment calculus by ring/field_simp on the translated stencil, induction over steps, real analysis for the limit) + translator + bitwise iteration correspondence",
        ref="DESIGN.md 7/C04"),
    "C05": dict(
        text="PARTIAL. Theorems: (A) on the GENERATED main loop with uninterpreted physics: one iteration maps the grid by wake "
             "kick (with the wake potential of the grid's current profile), RF kick, drift, Fokker-Planck, in this order; the "
             "profile is re-projected after every iteration; the wake potential written with a record is the one applied by the "
             "following kick. (B) exact moment balance of a stationary state of the one-step moment map (any field, any damping "
             "decrement): mean energy 0 and tan(dtheta)<q> = <W>. (C) continuous statement with the code's sign conventions "
             "(dq/dtheta=-p, dp/dtheta=q-W/dtheta): rho(q)exp(-p^2/2) is stationary for the Vlasov-Fokker-Planck equation iff "
             "rho'=-(q-F)rho, and then ln rho + q^2/2 - int F is constant (the relation of the property), the energy factor "
             "being the unit Gaussian. Oracle on the real program: runs of 13 damping times with resistive, resistive-wall "
             "and parallel-plates impedances, potential-well terms 0.05..1.5: stationarity, energy spread = natural spread of "
             "the discrete operator (C04), Haissinski residual over the core, exact first-moment balance.",
        note="Convergence of the discrete iteration to a stationary state and the size of the discretisation error of that state "
             "are measured, not proved. Configurations beyond the stability limit of the explicit Fokker-Planck step "
             "(e1/delta^2 > 0.3) or above the instability threshold are not judged.",
        technique="Lean 4 proof (refinement on the translated main loop, field algebra, Mathlib calculus for the continuous equation) + translator + binary-level oracle on long runs",
        ref="DESIGN.md 7/C05"),
    "C06": dict(
        text="Theorems for all transform lengths, bunch counts, bucket layouts, complex impedances and profiles (any "
             "field, naive-sum transforms): the state machine computes scale*c2r(Z|k<N/2 * r2c(pad(profiles))) read "
             "back at bucket*spacing; padding places disjoint windows exactly; wake is linear in the profiles; depends "
             "only on Z_k, k<N/2; cyclic shift of the train shifts the wake (twiddle group law); scaling identity. "
             "FFTW = naive sums is an assumption validated numerically (Lean binary64 model and numpy).",
        note="Float FFT rounding is outside the theorems (tolerance 2e-5 of the line scale in the correspondence).",
        technique="Lean 4 proof (finite-sum algebra over a pair-encoded complex field) + numeric correspondence against naive DFT",
        ref="DESIGN.md 7/C06"),
    "C07": dict(
        text="Theorems: spectrum entries, power and power-with-cutoff are >= 0 for Re Z >= 0 for ANY forward transform "
             "(ordered field); cutoff factor in [0,1] makes the power smaller; Parseval pairing 1/2 sum rho*W = 1/2 ReZ0|F0|^2 "
             "+ sum_{0<k<N/2} ReZk|Fk|^2 and power = df*r*sum_{i<=N/2} ReZi|Fi|^2 (naive transforms), i.e. they agree "
             "apart from the zero-frequency and Nyquist terms. Oracle checks signs on bit patterns and the identity on "
             "the real class for random passive impedances.",
        note="exp() of the cutoff enters as hypothesis 0<=f<=1; monotone rounding (IEEE) carries non-negativity to binary32.",
        technique="Lean 4 proof (ordered-field sign lemmas, finite-sum algebra) + numeric correspondence",
        ref="DESIGN.md 7/C07"),
    "C18": dict(
        text="Theorem: for ALL histories of wake/pad/csr calls on any profiles, all lengths, bunch patterns and ANY "
             "library transforms satisfying ClobOK, the observables of an operation equal those of a fresh object "
             "(invariant: never-rewritten parts of the complex buffers are still zero). Oracle: bitwise history-vs-"
             "fresh comparison on the real class.",
        note="ClobOK (FFTW's c2r leaves input entries k >= N/2 unchanged) is a library assumption, checked empirically. "
             "Model follows the code after fix 537a8d6.",
        technique="Lean 4 proof (state-machine invariant, induction over histories) + bitwise history-vs-fresh oracle",
        ref="DESIGN.md 7/C18"),
})

CHECKS.update({
    "C10": dict(
        text="Theorems on the GENERATED statement skeleton of main() (any step count, cadences, flags, uninterpreted "
             "physics): all time-indexed datasets have as many records as the time axis; the time axis is exactly the "
             "output steps plus the final step; every stored phase space belongs to the record of its step; wake and CSR "
             "records are those of the recorded profile; without renormalisation inside the loop every record's profile, "
             "energy profile, population and moments are computed from the grid it describes - and with renormalisation "
             "this is FALSE of the code (fresh_full_false, replayed on the program: known finding renorm-output). The "
             "file oracle checks units, axes, projections, moments, intensity and the wake convolution on real runs.",
        note="Unit factors, axes and dataset layout are decided by the file oracle (support), not by theorems. HDF5 append semantics assumed.",
        technique="Lean 4 proof (invariants by induction over loop iterations of the translated main loop) + file-skeleton correspondence + file oracle",
        ref="DESIGN.md 7/C10"),
    "C11": dict(
        text="Theorems: the last phase-space record of a run is its final grid labelled with the step count; split_run: a "
             "steps, store, restart, b steps = a+b steps in one go for RenormalizeCharge<0 and static RF, for ALL a, b, "
             "output settings; with renormalisation the full statement is false of the code (split_run_full_false). Start-file reader "
             "(GENERATED from HDF5File::readPhaseSpace, 64-bit wrap explicit): the record loaded is StartDistStep for 0 <= step < "
             "records, records+step for negative steps, and exists for EVERY step; files without a record, with >= 2 bunches or of "
             "another rank are refused (TieH5Read), validated in-process against the real reader. Oracle: "
             "leg1+leg2 vs single run on the binary (bit-wise without renormalisation), chosen start records, ten unusable files.",
        note="HDF5 read-back of stored bit patterns is an assumption (tested). With RenormalizeCharge >= 0 equality holds up to the start-up renormalisation factor (measured).",
        technique="Lean 4 proof (state-machine refinement on the translated main loop) + binary-level oracle",
        ref="DESIGN.md 7/C11"),
    "C12": dict(
        text="Theorems (non-interference): for ALL step counts and ALL observation settings (outstep, h5save, file or not, "
             "tracks, cache contents) the physical state (step, grid, x-projection, RF queue) after k steps is the same; "
             "the step is a function of the physical state; records common to two cadences are identical; stored phase spaces common "
             "to two runs are identical except the t=0 record between SavePhaseSpace=0 and >0 with renormalisation, where the full "
             "statement is refuted (common_phase_spaces_full_false; known finding initial-record). Oracle: bit-wise "
             "comparison of final phase spaces and common records across variants and repetitions of real runs.",
        note="Determinism of the numerics (FFTW with fixed wisdom) is observed, not proved.",
        technique="Lean 4 proof (frame/non-interference by induction over the translated main loop) + bit-wise binary oracle",
        ref="DESIGN.md 7/C12"),
    "C13": dict(
        text="Theorems on the GENERATED save() rules and option table: only compatibility names are skipped; alpha0 is "
             "replaced by 0 exactly when f_s != 0; every config-file option type has a save branch; full precision is "
             "set; every command-line value option has a config-file twin; save writes exactly the token of every scalar "
             "key and one line per entry of the vector key; re-parsing the saved lines yields the same token for every "
             "handled scalar option (model of boost store/notify). Oracle: parse -> save -> parse on the real class, "
             "getters compared bit-wise, incl. 8-9 digit values and several bunch currents.",
        note="Number formatting/parsing round trip is a library fact (tested). Model after fixes 3df863c, cb9f10a, 7326215, 8c67dde.",
        technique="Lean 4 proof (decide on the translated tables + finite-map reasoning) + translator + parse/save/parse correspondence",
        ref="DESIGN.md 7/C13"),
    "C14": dict(
        text="Theorem: for EVERY interrupt point p (set-up, any statement boundary of the loop, output block, final block) "
             "the run with a signal at p equals the uninterrupted run over some k <= laststep steps (finishes the step, one "
             "final record, Aborted/Finished); records written before the final block are a prefix of the uninterrupted "
             "run's; the final block adds exactly one record to every time-indexed dataset. Validation: SIGINT raised "
             "through hook H1 at sampled (quick) / all (thorough) points of real runs, incl. second signals.",
        note="Statement granularity; asynchronous delivery inside library calls covered by the one-store handler argument.",
        technique="Lean 4 proof (small-step/large-step equivalence on the translated main loop) + hook-driven enumeration of interrupt points",
        ref="DESIGN.md 7/C14"),
    "C19": dict(
        text="Theorems: the constructor overloads clang selects forward every argument to the like-named formal (generated "
             "from the AST); zero amplitudes give entries (syncphase, 1) and the static kick for both RF models; entry i of "
             "a pure phase modulation is syncphase + A sin(w i); for ANY interleaving of apply/flush the records handed "
             "out are exactly the entries used, in order, none lost or duplicated; in main() /RFKicks ends with exactly "
             "the first k queue entries for every cadence. Oracle: dynamic vs static map bit-wise, recorded entry vs "
             "displacement field used, binary runs.",
        note="PRNG draws are inputs. Model after fix c8b0bf4.",
        technique="Lean 4 proof (decide on translated constructor calls, induction over operation sequences) + bitwise correspondence",
        ref="DESIGN.md 7/C19"),
    "C20": dict(
        text="Theorems on a model of boost::program_options store/notify and the GENERATED option table and parse() skeleton: "
             "precedence - for every key: command-line value, else config-file value, else value of its legacy alias, else "
             "default; notify leaves each variable with the tokens of its (unique) option; unknown key / malformed value / token that "
             "belongs to no option / missing config file stop before anything is simulated; table well-formedness by decide. Correspondence: "
             "random assignments over all sources against the real parse().",
        note="boost semantics are modelled (validated by correspondence), lexical_cast not modelled. Model after fixes 957f9ea, 76daffd.",
        technique="Lean 4 proof (finite-map semantics of store/notify over the translated option table) + translator + correspondence",
        ref="DESIGN.md 7/C20"),
})

CHECKS.update({
    "C03": dict(
        text="Theorems: a kick moves the first moment of every interior line by minus its displacement (generated weights, "
             "orders 2-4, all n, data); the zero bin of any shifted axis is the physical origin; the one-step centroid map "
             "(RF kick then drift) has unit determinant, an invariant quadratic form (the orbit lies on one ellipse for every "
             "k, positive definite for theta*tan(theta) < 4) and obeys c_{k+2} = (2 - theta*tan theta) c_{k+1} - c_k; over R "
             "|2 - theta tan theta - 2 cos theta| <= theta^4 for 0 < theta <= 1/2 (phase advance theta(1+O(theta^2)): orbit "
             "closed up to the splitting error). The real RF/drift maps rotate blobs for a period; the Lean model iterates "
             "bitwise; main()'s RF arguments are tied by generated constructor calls.",
        note="Float accumulation over a period is budgeted by the oracle. Sinusoidal model: small amplitudes, parameters per main()'s arithmetic (after fix ad03471).",
        technique="Lean 4 proof (ring identities on translated weights, finite-sum reindexing, induction over steps, real-analysis bound) + bitwise iteration correspondence",
        ref="DESIGN.md 7/C03"),
    "C15": dict(
        text="Theorems (ordered field): after KickMap::applyTo the coordinate along the kick is in [1, n-1] for every position, "
             "displacement field and perpendicular coordinate; the clamp used by all Fokker-Planck tracking models has the same "
             "range, hence every later array look-up index is < n; unclamped, the particle moves by minus the linearly "
             "interpolated displacement, which is exactly the centroid shift of a bilinear blob placed on it (with "
             "C03.kick_line_first_moment); stochastic model: mean relaxes to the zero-energy bin, variance fixed point "
             "1/(delta^2 (1-e1/2)); the pre-fix recurrence drives the mean to row 0. Oracle: blob vs particle on the real "
             "KickMap, ensembles under all four tracking models.",
        note="PRNG not modelled (ensemble statistics measured). Model after fix 7ca92b2.",
        technique="Lean 4 proof (order lemmas on min/max clamps, algebra of the stochastic recurrence) + bitwise correspondence of applyTo",
        ref="DESIGN.md 7/C15"),
    "C16": dict(
        text="Theorems (ordered field, library functions pow/sqrt/log as parameters with their sign hypotheses): every "
             "impedance builder returns exactly n samples with the upper half zero; free-space CSR is Z0*Gamma(2/3)*(sqrt3/2 + i/2)"
             "*(i*delta)^(1/3) i.e. phase pi/6, non-negative real part and the cube-root scaling law; resistive wall has "
             "Im = -Re (phase -pi/4), Re >= 0; every mode of the parallel-plates sum and the sum itself have Re >= 0 under the "
             "stated Airy sign hypothesis; collimator is a positive constant; the factory returns nothing iff nothing is "
             "selected and otherwise the sample-wise sum of exactly the selected contributions; sums keep Re >= 0. "
             "Oracle on the real builders: length, finiteness, Re >= 0, zero upper half, scaling laws, phases, the side of the "
             "source on which the response lives (free space vs wall opposite), parallel-plates asymptotics, factory = sum. "
             "Parallel plates: the scalar arithmetic of the builder is GENERATED (G9j) and evaluated by the model driver in binary64 "
             "with Airy values supplied by the check: bitwise agreement with the real table; mode bound maxp = 2 n f0 g/c, scale "
             "and per-mode passivity proved on the generated expressions (TiePP).",
        note="Airy-function asymptotics (parallel plates -> free space, suppression below cutoff) and one-sidedness of the "
             "truncated tables are measured by the oracle, not proved. n<=1 is excluded (C17).",
        technique="Lean 4 proof (algebra/order over a field with library functions as parameters) + correspondence of all builders and the factory + analytic oracle",
        ref="DESIGN.md 7/C16"),
    "C17": dict(
        text="PARTIAL. Theorems, for all sizes and inputs, on the index arithmetic that decides whether arrays are respected: "
             "(1) GENERATED buffer lengths of main() (translator G4): every bucket window bucket*spacing+grid lies inside the "
             "padded profile buffer = wake-impedance length, for any bucket count, spacing, padding and rounding "
             "(pad_fits_multi/single; old_length_too_short = the pre-fix formula fails); (2) GENERATED Fokker-Planck "
             "constructor incl. the clamp of the stencil switch row: every table row holds source indices < n and every "
             "statement writes an existing row, for EVERY position of the zero-energy bin (any grid shift); (3) kick maps: "
             "updateSM yields a full row with indices < n for displacements of any size, sign, inf or NaN, apply reads "
             "only cells < n; (4) Impedance::operator+= keeps the left length and reads the right table only where it "
             "exists; (5) the text reader returns only complete records made of file tokens; upper_power_of_two >= argument. "
             "Search: ASan+UBSan+float-cast-overflow+_GLIBCXX_ASSERTIONS builds of the API harness (bitwise against the "
             "model) and of the real program over the configuration domain and the three kinds of input file; a run must "
             "complete or stop with a message; buffer length and bucket numbers of completed runs vs. the generated arithmetic.",
        note="Memory safety of the compiled program as a whole (allocation, HDF5/FFTW/boost calls, code outside the modelled "
             "index arithmetic) is searched with sanitizers, not proved. Out-of-domain options (InterpolationPoints not in 1..4, "
             "derivation not in 3..4) are not judged.",
        technique="Lean 4 proof (index arithmetic on translated sizes/FP constructor and hand models) + translator + bitwise correspondence + sanitizer-guided search of harness and program",
        ref="DESIGN.md 7/C17"),
})

PENDING = {
    "C01": "check under construction in this round (proofs being merged)",
    "C02": "check under construction in this round (proofs being merged)",
    "C08": "check under construction in this round (proofs being merged)",
    "C09": "check under construction in this round (proofs being merged)",
    "C03": "check under construction in this round (orbit algebra theorems + RF/drift correspondence exist, not yet registered)",
    "C04": "check under construction in this round (moment calculus of the generated Fokker-Planck stencil)",
    "C05": "check under construction (structural lemmas on step order/scale; equilibrium itself can only be measured)",
    "C06": "check under construction in this round (ElectricField model + naive-DFT correspondence exist)",
    "C07": "check under construction in this round",
    "C10": "check under construction (main-program interpreter, HDF5 dump tool)",
    "C11": "check under construction (restart path of main, readPhaseSpace index map)",
    "C12": "check under construction (non-interference on the main-loop model, bitwise binary oracle)",
    "C13": "check under construction (option table translation, parse/save round trip)",
    "C14": "check under construction (interrupt hook H1, statement-level trace model)",
    "C15": "check under construction (applyTo models, blob-vs-particle theorem)",
    "C16": "check under construction (impedance table builders)",
    "C17": "check under construction (bounds lemmas + sanitizer search)",
    "C18": "check under construction in this round (buffer state machine, history-vs-fresh oracle)",
    "C19": "check under construction (DynamicRFKickMap queue model, constructor forwarding)",
    "C20": "check under construction (boost::program_options store/notify model)",
}


def main():
    hooks_commits = []
    try:
        out = subprocess.run(["git", "-C", "/repo", "log", "--format=%H %s"], stdout=subprocess.PIPE, text=True).stdout
        for l in out.splitlines():
            h, s = l.split(" ", 1)
            if s.startswith("verif:") or s.startswith("hook:"):
                hooks_commits.append(h)
    except Exception:
        pass
    m = {
        "version": 1,
        "setup_cmd": "./setup.sh",
        "hooks": {
            "guard": "INOVESA_VERIF",
            "enable": "checks compile /repo/src/**/*.cpp themselves with -DINOVESA_VERIF=1 (check/lib.py); the cmake build in /repo/_build never defines it",
            "baseline_off_cmd": "cmake --build /repo/_build && ctest --test-dir /repo/_build -j8 --timeout 900",
            "source_commits": hooks_commits,
            "add_only": True,
        },
        "engines": [
            {"name": "lean-model", "path": "lean/", "serves_properties": sorted(READY),
             "kind_free_text": "Lean 4 library InovesaModel (Model/ hand model, Gen/ translator output, Lemmas/, Props/ property theorems) + Mathlib-free driver ivdriver"},
            {"name": "translator", "path": "translator/", "serves_properties": ["C01", "C02", "C04"],
             "kind_free_text": "clang-14 AST -> Lean terms (fail-closed)"},
            {"name": "harness", "path": "harness/", "serves_properties": sorted(READY),
             "kind_free_text": "C++ correspondence harness calling the real classes in-process; built from /repo working tree with sanitizers"},
        ],
        "checks": [],
        "not_applicable": [],
        "notes": "All checks: ./check/run <id> --tier quick|thorough; honours VERIF_SEED/VERIF_TIER; evidence in evidence/<id>.json; "
                 "known_findings.json lists repaired ('fixed') and recorded defects.",
    }
    for pid in sorted(READY):
        c = CHECKS[pid]
        m["checks"].append({
            "property_id": pid,
            "quick_cmd": "./check/run %s --tier quick" % pid,
            "thorough_cmd": "./check/run %s --tier thorough" % pid,
            "evidence_file": "evidence/%s.json" % pid,
            "replay_cmd_template": "./check/run %s --replay {path}" % pid,
            "engine": "lean-model",
            "level_claimed": {"category": "proof", "text": c["text"], "design_ref": c["ref"]},
            "level_note": NOTE + c["note"],
            "technique": c["technique"],
        })
    for pid in sorted(PENDING):
        if pid not in READY:
            m["not_applicable"].append({"property_id": pid, "reason": PENDING[pid]})
    with open(os.path.join(VERIF, "MANIFEST.json"), "w") as f:
        json.dump(m, f, indent=1)
    # validate
    try:
        import jsonschema
        with open("/root/.vp/MANIFEST.schema.json") as f:
            jsonschema.validate(m, json.load(f))
        print("MANIFEST.json valid;", len(m["checks"]), "checks,", len(m["not_applicable"]), "not_applicable")
    except ImportError:
        print("jsonschema not available; not validated")


if __name__ == "__main__":
    main()
