"""Writes /verif/MANIFEST.json from the table below (kept here so that the manifest stays
valid and consistent while checks are added)."""
import json
import os
import subprocess

VERIF = os.path.dirname(os.path.dirname(os.path.abspath(__file__)))

NOTE = ("Trusted base: Lean 4.33 kernel; axioms propext, Classical.choice, Quot.sound only (audited by "
        "#print axioms on every run; no sorry/admit/native_decide/bv_decide/own axioms); translator/*.py "
        "(clang typed AST -> Lean, fail-closed); correspondence harness built from /repo's working tree "
        "(ASan+UBSan+_GLIBCXX_ASSERTIONS) and comparer; IEEE binary32 rounding, libm, FFTW, HDF5, boost "
        "are modelled/assumed, not verified. ")

CHECKS = {
    "C01": dict(
        text="Theorems for all grid sizes < 2^31, interpolation orders 1-4, bunch counts, displacement fields and "
             "signed data: interior support => every kick line / whole train keeps its sum (real arithmetic); all "
             "interior columns of the generated Fokker-Planck stencils sum to one, the columns next to the stencil "
             "switch have a defect e1*kappa. Stated about Gen/Coeff.lean and Gen/FPStencil.lean, which are regenerated "
             "from the C++ on every run; loops/index logic are a hand model validated bitwise against the real classes.",
        note="Float rounding is budgeted by the implementation oracle, not proved. WakePotentialMap/RFKickMap/DriftMap "
             "enter as instances of KickMap::apply with their own offset fields.",
        technique="Lean 4 proof (ring identities on translated coefficients, finite-sum reindexing) + translator + bitwise correspondence",
        ref="DESIGN.md 7/C01"),
    "C02": dict(
        text="Theorems for every fractional offset f (any field of char 0) and every order: weights sum to 1, unit "
             "weight at f=0, polynomials of degree < order reproduced exactly, whole-cell displacement = shifted copy with "
             "zeros flowing in; for the translated calcCoefficiants and the hand model of updateSM/apply. Thorough tier "
             "additionally sweeps all 2^30 binary32 offsets in the C++ (support, not the proof).",
        note="Bit-for-bit clause rests on the exact theorem + IEEE facts 1*x=x, 0*x=+-0, x+-0=x (trusted) and is tested bitwise.",
        technique="Lean 4 proof (ring/field_simp on translated Lagrange weights) + translator + bitwise correspondence",
        ref="DESIGN.md 7/C02"),
    "C08": dict(
        text="Theorem: KickMap::apply on a train is the concatenation over bunches of the single-bunch map built from "
             "that bunch's table block applied to that bunch's data (all n, nb, lastbunch, tables, data), hence identical "
             "bunches stay identical. RF/drift/Fokker-Planck bunch loops: model defined bunch-wise and validated bitwise; "
             "oracle compares every bunch of a multi-bunch step with the same bunch transported alone.",
        note="History part (any number of steps) follows by induction from the one-step statement since a step is a "
             "composition of such maps; the wake block of bunch b is wakePotential[b] (C06 read-back index).",
        technique="Lean 4 proof (list/flatMap structure of the model) + bitwise correspondence + single-vs-multi-bunch oracle",
        ref="DESIGN.md 7/C08"),
    "C09": dict(
        text="Theorems for all n, nb, data, fillings (any field): after normalize() computed from a fresh integral every "
             "occupied bucket integrates to exactly its set share, empty buckets to 0, total = sum of shares; average/"
             "variance are the first/centred second moment of the bunch's own projection over its own charge; projections, "
             "charge and moments of a bunch do not depend on other bunches' data; a copy of a fresh state has equal data, "
             "projections, populations, integral and moments. Hand model validated bitwise on random op sequences.",
        note="The sampled-Gaussian clause (mean/width up to discretisation error) is measured, not proved. Domain: equal "
             "cell size on both axes.",
        technique="Lean 4 proof (linear algebra of finite sums over the executable model) + bitwise op-sequence correspondence",
        ref="DESIGN.md 7/C09"),
}

# properties whose proof modules are merged into lean/ and whose check passes on the clean tree
READY = ["C01", "C02", "C04", "C06", "C07", "C08", "C09", "C18"]

CHECKS.update({
    "C04": dict(
        text="Theorems on the GENERATED Fokker-Planck stencil (all n, e1, delta, grid positions): column moments of order "
             "0,1,2 for the 3-point stencil in all four variants and for the 4-point stencil away from the switch row; one "
             "step maps the energy moments by m0'=m0, m1'=(1-e1)m1, m2'=(1-2e1)m2+e1(2-delta^2)m0 (interior data), with "
             "the boundary leakage as an explicit remainder carried by the four outermost columns; closed form, "
             "monotonicity, perturbed-contraction bound and convergence (over R) of the induced recurrence for "
             "0<e1<1/2; damping-only shrinks, diffusion-only grows, none = identity. The real map is iterated for "
             "several damping times and compared with the recurrence; the Lean model iterates bitwise alongside.",
        note="Pure Fokker-Planck iteration; the rotation-coupled relaxation rate of the bunch length is not proved "
             "(C03 gives the rotation). Binary-level /BunchLength,/EnergySpread series are measured in the thorough tier.",
        technique="Lean 4 proof (moment calculus by ring/field_simp on the translated stencil, induction over steps, real analysis for the limit) + translator + bitwise iteration correspondence",
        ref="DESIGN.md 7/C04"),
    "C06": dict(
        text="Theorems for all transform lengths, bunch counts, bucket layouts, complex impedances and profiles (any "
             "field, naive-sum transforms): the state machine computes scale*c2r(Z|k<N/2 * r2c(pad(profiles))) read "
             "back at bucket*spacing; padding places disjoint windows exactly; wake is linear in the profiles; depends "
             "only on Z_k, k<N/2; cyclic shift of the train shifts the wake (twiddle group law); scaling identity. "
             "FFTW = naive sums is an assumption validated numerically (Lean binary64 model and numpy).",
        note="Float FFT rounding is outside the theorems (tolerance 2e-5 of the line scale in the correspondence).",
        technique="Lean 4 proof (finite-sum algebra over a pair-encoded complex field) + numeric correspondence against naive DFT",
        ref="DESIGN.md 7/C06"),
    "C07": dict(
        text="Theorems: spectrum entries, power and power-with-cutoff are >= 0 for Re Z >= 0 for ANY forward transform "
             "(ordered field); cutoff factor in [0,1] makes the power smaller; Parseval pairing 1/2 sum rho*W = 1/2 ReZ0|F0|^2 "
             "+ sum_{0<k<N/2} ReZk|Fk|^2 and power = df*r*sum_{i<=N/2} ReZi|Fi|^2 (naive transforms), i.e. they agree "
             "apart from the zero-frequency and Nyquist terms. Oracle checks signs on bit patterns and the identity on "
             "the real class for random passive impedances.",
        note="exp() of the cutoff enters as hypothesis 0<=f<=1; monotone rounding (IEEE) carries non-negativity to binary32.",
        technique="Lean 4 proof (ordered-field sign lemmas, finite-sum algebra) + numeric correspondence",
        ref="DESIGN.md 7/C07"),
    "C18": dict(
        text="Theorem: for ALL histories of wake/pad/csr calls on any profiles, all lengths, bunch patterns and ANY "
             "library transforms satisfying ClobOK, the observables of an operation equal those of a fresh object "
             "(invariant: never-rewritten parts of the complex buffers are still zero). Oracle: bitwise history-vs-"
             "fresh comparison on the real class.",
        note="ClobOK (FFTW's c2r leaves input entries k >= N/2 unchanged) is a library assumption, checked empirically. "
             "Model follows the code after fix 537a8d6.",
        technique="Lean 4 proof (state-machine invariant, induction over histories) + bitwise history-vs-fresh oracle",
        ref="DESIGN.md 7/C18"),
})

PENDING = {
    "C01": "check under construction in this round (proofs being merged)",
    "C02": "check under construction in this round (proofs being merged)",
    "C08": "check under construction in this round (proofs being merged)",
    "C09": "check under construction in this round (proofs being merged)",
    "C03": "check under construction in this round (orbit algebra theorems + RF/drift correspondence exist, not yet registered)",
    "C04": "check under construction in this round (moment calculus of the generated Fokker-Planck stencil)",
    "C05": "check under construction (structural lemmas on step order/scale; equilibrium itself can only be measured)",
    "C06": "check under construction in this round (ElectricField model + naive-DFT correspondence exist)",
    "C07": "check under construction in this round",
    "C10": "check under construction (main-program interpreter, HDF5 dump tool)",
    "C11": "check under construction (restart path of main, readPhaseSpace index map)",
    "C12": "check under construction (non-interference on the main-loop model, bitwise binary oracle)",
    "C13": "check under construction (option table translation, parse/save round trip)",
    "C14": "check under construction (interrupt hook H1, statement-level trace model)",
    "C15": "check under construction (applyTo models, blob-vs-particle theorem)",
    "C16": "check under construction (impedance table builders)",
    "C17": "check under construction (bounds lemmas + sanitizer search)",
    "C18": "check under construction in this round (buffer state machine, history-vs-fresh oracle)",
    "C19": "check under construction (DynamicRFKickMap queue model, constructor forwarding)",
    "C20": "check under construction (boost::program_options store/notify model)",
}


def main():
    hooks_commits = []
    try:
        out = subprocess.run(["git", "-C", "/repo", "log", "--format=%H %s"], stdout=subprocess.PIPE, text=True).stdout
        for l in out.splitlines():
            h, s = l.split(" ", 1)
            if s.startswith("verif:") or s.startswith("hook:"):
                hooks_commits.append(h)
    except Exception:
        pass
    m = {
        "version": 1,
        "setup_cmd": "./setup.sh",
        "hooks": {
            "guard": "INOVESA_VERIF",
            "enable": "checks compile /repo/src/**/*.cpp themselves with -DINOVESA_VERIF=1 (check/lib.py); the cmake build in /repo/_build never defines it",
            "baseline_off_cmd": "cmake --build /repo/_build && ctest --test-dir /repo/_build -j8 --timeout 900",
            "source_commits": hooks_commits,
            "add_only": True,
        },
        "engines": [
            {"name": "lean-model", "path": "lean/", "serves_properties": sorted(READY),
             "kind_free_text": "Lean 4 library InovesaModel (Model/ hand model, Gen/ translator output, Lemmas/, Props/ property theorems) + Mathlib-free driver ivdriver"},
            {"name": "translator", "path": "translator/", "serves_properties": ["C01", "C02", "C04"],
             "kind_free_text": "clang-14 AST -> Lean terms (fail-closed)"},
            {"name": "harness", "path": "harness/", "serves_properties": sorted(READY),
             "kind_free_text": "C++ correspondence harness calling the real classes in-process; built from /repo working tree with sanitizers"},
        ],
        "checks": [],
        "not_applicable": [],
        "notes": "All checks: ./check/run <id> --tier quick|thorough; honours VERIF_SEED/VERIF_TIER; evidence in evidence/<id>.json; "
                 "known_findings.json lists repaired ('fixed') and recorded defects.",
    }
    for pid in sorted(READY):
        c = CHECKS[pid]
        m["checks"].append({
            "property_id": pid,
            "quick_cmd": "./check/run %s --tier quick" % pid,
            "thorough_cmd": "./check/run %s --tier thorough" % pid,
            "evidence_file": "evidence/%s.json" % pid,
            "replay_cmd_template": "./check/run %s --replay {path}" % pid,
            "engine": "lean-model",
            "level_claimed": {"category": "proof", "text": c["text"], "design_ref": c["ref"]},
            "level_note": NOTE + c["note"],
            "technique": c["technique"],
        })
    for pid in sorted(PENDING):
        if pid not in READY:
            m["not_applicable"].append({"property_id": pid, "reason": PENDING[pid]})
    with open(os.path.join(VERIF, "MANIFEST.json"), "w") as f:
        json.dump(m, f, indent=1)
    # validate
    try:
        import jsonschema
        with open("/root/.vp/MANIFEST.schema.json") as f:
            jsonschema.validate(m, json.load(f))
        print("MANIFEST.json valid;", len(m["checks"]), "checks,", len(m["not_applicable"]), "not_applicable")
    except ImportError:
        print("jsonschema not available; not validated")


if __name__ == "__main__":
    main()
