#!/usr/bin/env python3-vt
"""Evaluates seeded changes (DESIGN.md, section on seeded changes).

  seeded_eval.py confirm <agent worktree> <property> <name>
      in a FRESH scratch worktree of /repo's HEAD: the patch applies, the project builds, the
      unedited test suite passes with it, the demonstration fails with it and passes without it;
      then copies patch.diff, the demonstration and NOTES.md to /verif/seeded/<name>/ with meta.json.
  seeded_eval.py run <name> [<property> ...]
      applies /verif/seeded/<name>/patch.diff to /repo, runs the quick checks of the given
      properties (default: the one in meta.json), reverts /repo, prints which checks raised a VIOLATION.
  seeded_eval.py runall
"""
import json
import os
import shutil
import subprocess
import sys
import tempfile

VERIF = os.path.dirname(os.path.dirname(os.path.abspath(__file__)))
SEEDED = os.path.join(VERIF, "seeded")


def sh(cmd, cwd=None, timeout=3600, env=None):
    p = subprocess.run(cmd, cwd=cwd, shell=isinstance(cmd, str), stdout=subprocess.PIPE, stderr=subprocess.STDOUT,
                       text=True, timeout=timeout, env=env)
    return p.returncode, p.stdout


def confirm(agent_wt, prop, name):
    seed = os.path.join(agent_wt, "seed")
    patch = os.path.join(seed, "patch.diff")
    assert os.path.exists(patch), "no patch.diff"
    wt = tempfile.mkdtemp(prefix="seedwt_", dir="/tmp")
    os.rmdir(wt)
    rep = {"name": name, "property": prop}
    rc, out = sh(["git", "-C", "/repo", "worktree", "add", "-q", "--detach", wt, "HEAD"])
    try:
        rc, out = sh(["git", "apply", "--check", patch], cwd=wt)
        rep["applies_to_head"] = rc == 0
        if rc != 0:
            rep["apply_error"] = out[-500:]
            return rep
        # (build directories the agent left inside seed/ carry absolute paths of its worktree: not copied)
        shutil.copytree(seed, os.path.join(wt, "seed"),
                        ignore=lambda d, names: [n for n in names if os.path.isdir(os.path.join(d, n))
                                                 and (n.startswith("_") or n.startswith(".") or n in ("tmp", "build"))])
        rc, out = sh("cmake -G Ninja -B _build -DCMAKE_BUILD_TYPE=Release . > /dev/null && cmake --build _build 2>&1 | tail -2", cwd=wt)
        rep["baseline_builds"] = rc == 0
        # demonstration on the unchanged tree
        rc0, out0 = sh("sh seed/run_demo.sh", cwd=wt, timeout=1200)
        rep["demo_passes_without_change"] = rc0 == 0
        rep["demo_without_tail"] = out0[-300:]
        sh(["git", "apply", patch], cwd=wt)
        rc, out = sh("cmake --build _build 2>&1 | tail -2 && ctest --test-dir _build -j8 --timeout 900 2>&1 | tail -3", cwd=wt)
        rep["builds_and_tests_pass_with_change"] = rc == 0 and "100% tests passed" in out
        rep["ctest_tail"] = out[-200:]
        rc1, out1 = sh("sh seed/run_demo.sh", cwd=wt, timeout=1200)
        rep["demo_fails_with_change"] = rc1 != 0
        rep["demo_with_tail"] = out1[-300:]
    finally:
        sh(["git", "-C", "/repo", "worktree", "remove", "--force", wt])
    okay = all(rep.get(k) for k in ("applies_to_head", "demo_passes_without_change",
                                    "builds_and_tests_pass_with_change", "demo_fails_with_change"))
    rep["confirmed"] = okay
    if okay:
        dst = os.path.join(SEEDED, name)
        os.makedirs(dst, exist_ok=True)
        for f in os.listdir(seed):
            src = os.path.join(seed, f)
            if os.path.isfile(src) and os.path.getsize(src) < 2_000_000 and not f.endswith((".h5", ".o", ".fftw")) \
                    and os.access(src, os.R_OK) and not (os.access(src, os.X_OK) and not f.endswith(".sh")):
                shutil.copy(src, os.path.join(dst, f))
        notes = ""
        if os.path.exists(os.path.join(seed, "NOTES.md")):
            with open(os.path.join(seed, "NOTES.md")) as f:
                notes = f.read()
        meta = {"property": prop, "origin": "seeded by an independent sub-agent given only the property text and a scratch worktree",
                "needs": notes[:1500],
                "what_i_ran": "check/seeded_eval.py confirm (fresh worktree of /repo HEAD: git apply --check; cmake build; "
                              "ctest 42/42 with the change; seed/run_demo.sh FAIL with / PASS without the change)",
                "confirmation": {k: v for k, v in rep.items() if isinstance(v, bool)}}
        with open(os.path.join(dst, "meta.json"), "w") as f:
            json.dump(meta, f, indent=1)
    return rep


def run(name, props=None):
    d = os.path.join(SEEDED, name)
    with open(os.path.join(d, "meta.json")) as f:
        meta = json.load(f)
    props = props or [meta["property"]] + meta.get("also_breaks", [])
    patch = os.path.join(d, "patch.diff")
    rc, out = sh(["git", "-C", "/repo", "status", "--porcelain", "--untracked-files=no"])
    assert out.strip() == "", "/repo has uncommitted changes: " + out
    rc, out = sh(["git", "-C", "/repo", "apply", patch])
    if rc != 0:
        return {"name": name, "error": "patch does not apply: " + out[-300:]}
    res = {"name": name, "checks": {}}
    try:
        env = dict(os.environ)
        scratch = os.path.join(VERIF, ".cache", "seeded_out")
        env["VERIF_EVIDENCE_DIR"] = os.path.join(scratch, "evidence")
        env["VERIF_REPLAY_DIR"] = os.path.join(scratch, "replays")
        for sub in ("evidence", "replays"):
            os.makedirs(os.path.join(scratch, sub), exist_ok=True)
        for p in props:
            rc, out = sh([os.path.join(VERIF, "check", "run"), p, "--tier", "quick"], cwd=VERIF, timeout=3600, env=env)
            viol = [l for l in out.split("\n") if l.startswith("VIOLATION")]
            what = [l for l in out.split("\n") if l.startswith("[%s]" % p)]
            res["checks"][p] = {"exit": rc, "violation": viol[:1], "what": [w[:300] for w in what[:1]]}
    finally:
        sh(["git", "-C", "/repo", "checkout", "--", "."])
        # the checks regenerated lean/InovesaModel/Gen from the CHANGED tree: bring the copies back to the clean tree
        sh(["python3-vt", os.path.join(VERIF, "translator", "generate_all.py")])
    res["caught_by"] = [p for p, r in res["checks"].items() if r["exit"] == 1 and r["violation"]]
    return res


def run_in_sandbox(name, vdir, rdir, props=None):
    """like run(), but with a private copy of /verif (vdir) and a private worktree of /repo (rdir): several of these can
    run side by side.  Only used to fill seeded/RESULTS.json; the registered checks always run on /repo itself."""
    d = os.path.join(SEEDED, name)
    with open(os.path.join(d, "meta.json")) as f:
        meta = json.load(f)
    props = props or [meta["property"]] + meta.get("also_breaks", [])
    rc, out = sh(["git", "-C", rdir, "apply", os.path.join(d, "patch.diff")])
    if rc != 0:
        return {"name": name, "error": "patch does not apply: " + out[-300:]}
    res = {"name": name, "checks": {}}
    try:
        env = dict(os.environ)
        env["INOVESA_REPO"] = rdir
        env["VERIF_EVIDENCE_DIR"] = os.path.join(vdir, ".cache", "seeded_out", "evidence")
        env["VERIF_REPLAY_DIR"] = os.path.join(vdir, ".cache", "seeded_out", "replays")
        for sub in ("evidence", "replays"):
            os.makedirs(os.path.join(vdir, ".cache", "seeded_out", sub), exist_ok=True)
        for p in props:
            rc, out = sh([os.path.join(vdir, "check", "run"), p, "--tier", "quick"], cwd=vdir, timeout=3600, env=env)
            viol = [l for l in out.split("\n") if l.startswith("VIOLATION")]
            what = [l for l in out.split("\n") if l.startswith("[%s]" % p)]
            res["checks"][p] = {"exit": rc, "violation": viol[:1], "what": [w[:300] for w in what[:1]]}
    finally:
        sh(["git", "-C", rdir, "checkout", "--", "."])
    res["caught_by"] = [p for p, r in res["checks"].items() if r["exit"] == 1 and r["violation"]]
    return res


def runall_parallel(jobs, only=None):
    """whole regression (or the named changes only) with `jobs` sandboxes under /tmp (removed afterwards)"""
    import threading
    names = sorted(n for n in os.listdir(SEEDED) if os.path.exists(os.path.join(SEEDED, n, "patch.diff")))
    if only:
        names = [n for n in names if n in only]
    rc, out = sh(["git", "-C", "/repo", "status", "--porcelain", "--untracked-files=no"])
    assert out.strip() == "", "/repo has uncommitted changes: " + out
    base = tempfile.mkdtemp(prefix="seedpar_", dir="/tmp")
    boxes = []
    for w in range(jobs):
        vdir, rdir = os.path.join(base, "v%d" % w), os.path.join(base, "r%d" % w)
        sh("rsync -a --exclude .cache --exclude replays --exclude .git %s/ %s/" % (VERIF, vdir))
        sh(["git", "-C", "/repo", "worktree", "add", "-q", "--detach", rdir, "HEAD"])
        os.symlink("/repo/_build", os.path.join(rdir, "_build"))
        boxes.append((vdir, rdir))
    results, lock, todo = {}, threading.Lock(), list(names)

    def worker(box):
        while True:
            with lock:
                if not todo:
                    return
                name = todo.pop(0)
            r = run_in_sandbox(name, box[0], box[1])
            with lock:
                results[name] = r
                print(name, "->", r.get("caught_by"), r.get("error", ""), flush=True)
    threads = [threading.Thread(target=worker, args=(b,)) for b in boxes]
    for t in threads:
        t.start()
    for t in threads:
        t.join()
    for vdir, rdir in boxes:
        sh(["git", "-C", "/repo", "worktree", "remove", "--force", rdir])
    shutil.rmtree(base, ignore_errors=True)
    sh(["git", "-C", "/repo", "worktree", "prune"])
    merged = {}
    rp = os.path.join(SEEDED, "RESULTS.json")
    if only and os.path.exists(rp):
        with open(rp) as f:
            merged = {r["name"]: r for r in json.load(f)}
    merged.update(results)
    with open(rp, "w") as f:
        json.dump([merged[n] for n in sorted(merged)], f, indent=1)


def main():
    if sys.argv[1] == "runall" and len(sys.argv) > 3 and sys.argv[2] == "--jobs":
        runall_parallel(int(sys.argv[3]), only=sys.argv[4:] or None)
        return
    if sys.argv[1] == "confirm":
        print(json.dumps(confirm(sys.argv[2], sys.argv[3], sys.argv[4]), indent=1))
    elif sys.argv[1] == "run":
        print(json.dumps(run(sys.argv[2], sys.argv[3:] or None), indent=1))
    elif sys.argv[1] == "runall":
        allres = []
        for name in sorted(os.listdir(SEEDED)):
            if os.path.exists(os.path.join(SEEDED, name, "patch.diff")):
                r = run(name)
                allres.append(r)
                print(name, "->", r.get("caught_by"), r.get("error", ""), flush=True)
        with open(os.path.join(VERIF, "seeded", "RESULTS.json"), "w") as f:
            json.dump(allres, f, indent=1)


if __name__ == "__main__":
    main()
