"""Case generators and op-file plumbing shared by the checks (DESIGN.md §4.2)."""
import math
import os
import subprocess
import sys

sys.path.insert(0, os.path.dirname(os.path.abspath(__file__)))
from lib import f2h, h2f, f32, CACHE, driver_path, log  # noqa


def gauss2d(n, cx, cy, s, amp=1.0):
    return [f32(amp * math.exp(-((x - cx) ** 2 + (y - cy) ** 2) / (2 * s * s)))
            for x in range(n) for y in range(n)]


def data_family(rng, n, nb, fam, margin):
    """nb*n*n floats, support kept `margin` cells away from the border."""
    out = []
    for b in range(nb):
        g = [0.0] * (n * n)
        lo, hi = margin, n - 1 - margin
        if hi < lo:
            lo = hi = n // 2
        if fam == "impulse":
            for _ in range(rng.randint(1, 4)):
                g[rng.randint(lo, hi) * n + rng.randint(lo, hi)] = f32(rng.uniform(-2, 2))
        elif fam == "poly":
            a = [rng.uniform(-1, 1) for _ in range(6)]
            for x in range(lo, hi + 1):
                for y in range(lo, hi + 1):
                    u, v = (x - n / 2) / n, (y - n / 2) / n
                    g[x * n + y] = f32(a[0] + a[1] * u + a[2] * v + a[3] * u * u + a[4] * u * v + a[5] * v * v)
        elif fam == "gauss":
            cx, cy = rng.uniform(lo, hi), rng.uniform(lo, hi)
            s = rng.uniform(0.8, max(1.0, n / 10))
            for x in range(lo, hi + 1):
                for y in range(lo, hi + 1):
                    v = math.exp(-((x - cx) ** 2 + (y - cy) ** 2) / (2 * s * s))
                    g[x * n + y] = f32(v)
        else:  # signed noise
            for x in range(lo, hi + 1):
                for y in range(lo, hi + 1):
                    g[x * n + y] = f32(rng.uniform(-1, 1))
        out += g
    return out


def offset_family(rng, n, nb, fam, amp):
    """n*nb displacements (cells)."""
    out = []
    for b in range(nb):
        if fam == "whole":
            d = rng.randint(-int(amp), int(amp))
            row = [float(d)] * n
        elif fam == "wholerow":
            row = [float(rng.randint(-int(amp), int(amp))) for _ in range(n)]
        elif fam == "mixed":
            # rows with exactly zero, whole-cell and fractional displacement side by side (a zero row
            # right after a fractional one exercises per-row scratch state in the table builder)
            row = [rng.choice([0.0, 0.0, float(rng.randint(-int(amp), int(amp))), f32(rng.uniform(-amp, amp)),
                               f32(rng.uniform(-amp, amp)),
                               # displacements far below one cell (a wake kick of one step): they must still be interpolated
                               f32(rng.choice([1e-4, -1e-4, 5e-4, -7e-4, 3e-6]))]) for _ in range(n)]
        elif fam == "nearwhole":
            # displacements a hair below (or above) a whole number of cells: centre + displacement rounds to the next
            # cell while the displacement itself does not - origin and weights must come from the SAME number
            row = []
            for _ in range(n):
                kk = rng.randint(-int(amp), int(amp))
                e = rng.choice([2.0 ** -12, 2.0 ** -17, 2.0 ** -19, 2.0 ** -21, 2.0 ** -23])
                row.append(f32(kk + rng.choice([1 - e, -e, e, 1 - 2 * e])))
        elif fam == "frac":
            row = [f32(rng.uniform(-amp, amp)) for _ in range(n)]
        elif fam == "affine":
            a = rng.uniform(-amp, amp) / max(1, n / 2)
            r0 = rng.uniform(0, n - 1)
            row = [f32(a * (r0 - r)) for r in range(n)]
        elif fam == "smooth":
            ph, k = rng.uniform(0, 6.28), rng.uniform(0.5, 3)
            row = [f32(amp * math.sin(ph + k * r * 6.28 / n)) for r in range(n)]
        else:  # "far": displacement beyond the grid for some rows, still defined (poffs >= 0)
            row = [f32(rng.choice([rng.uniform(-amp, amp), rng.uniform(n / 2, 2 * n),
                                   rng.uniform(-(n // 2), -(n // 2) + 1)])) for r in range(n)]
        out += row
    return out


def kick_case(cid, axis, n, it, nb, lb, off, data, parts=None, clamp=0, off0=None):
    lines = ["kick %s %s %d %d %d %d %d" % (cid, axis, n, it, nb, lb, clamp),
             "off " + " ".join(f2h(x) for x in off),
             "data " + " ".join(f2h(x) for x in data)]
    if off0:
        # the map's past: a displacement field installed and applied before `off` (the model ignores it)
        lines.append("off0 " + " ".join(f2h(x) for x in off0))
    if parts:
        lines.append("parts " + " ".join(f2h(x) for p in parts for x in p))
    lines.append("run")
    return "\n".join(lines) + "\n"


def harness_env():
    env = dict(os.environ)
    env["ASAN_OPTIONS"] = "detect_leaks=0:abort_on_error=0"
    env["UBSAN_OPTIONS"] = "print_stacktrace=1"
    env["XDG_DATA_HOME"] = os.path.join(CACHE, "xdg")
    os.makedirs(env["XDG_DATA_HOME"], exist_ok=True)
    return env


def add_aux(optext, impl_lines):
    """Insert the library values (`aux`/`aux2` lines) the implementation printed for a case
    before that case's `run` line, so that the model uses the same tan/sin/pow values."""
    aux = {}
    cur = None
    for l in impl_lines:
        if l.startswith("case "):
            cur = l.split()[1]
        elif cur is not None and l.startswith("aux"):
            aux.setdefault(cur, []).append(l)
    if not aux:
        return optext
    out = []
    cur = None
    for l in optext.split("\n"):
        t = l.split()
        if t and t[0] == "run":
            for a in aux.get(cur, []):
                out.append(a)
        elif t and t[0] not in ("off", "data", "extra", "parts", "ops", "argv", "cfg") and not t[0].startswith("aux") \
                and not t[0].startswith("#"):
            cur = t[1] if len(t) > 1 else None
        out.append(l)
    return "\n".join(out)


def run_both(harness, optext, tag):
    """Run harness and Lean driver on the same op file (the model additionally receives the
    library values printed by the implementation as `aux` lines);
    returns (impl_lines, model_lines, rc, stderr, rc_model, stderr_model)."""
    os.makedirs(CACHE, exist_ok=True)
    import threading
    path = os.path.join(CACHE, "ops_%s_%d_%d.txt" % (tag, os.getpid(), threading.get_ident()))
    with open(path, "w") as f:
        f.write(optext)
    p = subprocess.run([harness, path], stdout=subprocess.PIPE, stderr=subprocess.PIPE, text=True,
                       env=harness_env())
    impl = p.stdout.split("\n")
    mtext = add_aux(optext, impl)
    if mtext != optext:
        with open(path, "w") as f:
            f.write(mtext)
    q = subprocess.run([driver_path(), path], stdout=subprocess.PIPE, stderr=subprocess.PIPE, text=True)
    os.remove(path)
    impl = [l for l in impl if not l.startswith("aux")]
    return impl, q.stdout.split("\n"), p.returncode, p.stderr, q.returncode, q.stderr


def split_cases(lines):
    """{case id: [lines]} in order."""
    out = {}
    cur = None
    for l in lines:
        if l.startswith("case "):
            cur = l.split()[1]
            out[cur] = []
        elif cur is not None and l.strip() and not l.startswith("["):
            # lines starting with "[" are Display::printText log output of the implementation
            out[cur].append(l)
    return out
