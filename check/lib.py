"""Shared machinery of the /verif checks (DESIGN.md §5).

  * harness build from /repo's *current working tree* (object cache keyed by content)
  * translator run  -> lean/InovesaModel/Gen/*.lean
  * `lake build` of a property's proof module + audit (#print axioms, forbidden tokens)
  * evidence / violation / known-finding reporting
"""
import fcntl
import hashlib
import json
import os
import random
import re
import shutil
import struct
import subprocess
import sys
import time
from concurrent.futures import ThreadPoolExecutor

VERIF = os.path.dirname(os.path.dirname(os.path.abspath(__file__)))
REPO = os.environ.get("INOVESA_REPO", "/repo")
LEAN = os.path.join(VERIF, "lean")
CACHE = os.path.join(VERIF, ".cache")
# (seeded_eval.py points both elsewhere while a seeded change is applied to /repo, so that the committed evidence
#  always comes from runs against the unchanged tree)
EVID = os.environ.get("VERIF_EVIDENCE_DIR") or os.path.join(VERIF, "evidence")
REPLAYS = os.environ.get("VERIF_REPLAY_DIR") or os.path.join(VERIF, "replays")
PY = sys.executable

GUARD = "INOVESA_VERIF"

REPO_DEFS = [
    "-DINOVESA_ENABLE_INTERRUPT=1", "-DINOVESA_USE_HDF5=1", "-DINOVESA_USE_OPENCL=0",
    "-DINOVESA_USE_OPENGL=0", "-DINOVESA_USE_PNG=0", '-DGIT_BRANCH="main"',
    '-DGIT_COMMIT="verif"', "-DINOVESA_ALLOW_PS_RESET=1", "-D%s=1" % GUARD,
]
INCLUDES = ["-I" + os.path.join(REPO, "inc"), "-I/usr/include/hdf5/serial"]
SAN_FLAGS = ["-O1", "-g", "-std=c++14", "-fext-numeric-literals", "-ffp-contract=off",
             "-fsanitize=address,undefined", "-fno-sanitize-recover=undefined",
             "-fsanitize=float-cast-overflow", "-D_GLIBCXX_ASSERTIONS", "-w"]
PLAIN_FLAGS = ["-O2", "-std=c++14", "-fext-numeric-literals", "-ffp-contract=off", "-w"]
LIBS = ["-lboost_filesystem", "-lboost_program_options", "-lboost_system", "-lfftw3f",
        "-lfftw3", "-L/usr/lib/x86_64-linux-gnu/hdf5/serial", "-lhdf5_cpp", "-lhdf5"]

ALLOWED_AXIOMS = {"propext", "Classical.choice", "Quot.sound"}
FORBIDDEN = re.compile(r"\b(sorry|admit|native_decide|bv_decide|implemented_by|unsafe)\b|^\s*axiom\s|maxHeartbeats\s+0")


def log(*a):
    print(*a, file=sys.stderr, flush=True)


class Lock:
    def __init__(self, name):
        os.makedirs(CACHE, exist_ok=True)
        self.path = os.path.join(CACHE, name + ".lock")

    def __enter__(self):
        self.f = open(self.path, "w")
        fcntl.flock(self.f, fcntl.LOCK_EX)
        return self

    def __exit__(self, *a):
        fcntl.flock(self.f, fcntl.LOCK_UN)
        self.f.close()


def sha(b):
    return hashlib.sha256(b).hexdigest()


def repo_sources():
    out = []
    for root, _, files in os.walk(os.path.join(REPO, "src")):
        for f in files:
            if f.endswith(".cpp"):
                out.append(os.path.join(root, f))
    return sorted(out)


def headers_hash():
    h = hashlib.sha256()
    for root, _, files in sorted(os.walk(os.path.join(REPO, "inc"))):
        for f in sorted(files):
            p = os.path.join(root, f)
            h.update(p.encode())
            with open(p, "rb") as fh:
                h.update(fh.read())
    return h.hexdigest()


def config_include():
    """-I dir holding InovesaConfig.hpp (cmake-generated); regenerate if /repo/_build lacks it."""
    p = os.path.join(REPO, "_build", "InovesaConfig.hpp")
    if os.path.exists(p):
        return "-I" + os.path.join(REPO, "_build")
    d = os.path.join(CACHE, "cfginc")
    os.makedirs(d, exist_ok=True)
    with open(os.path.join(REPO, "InovesaConfig.hpp.in")) as f:
        s = f.read()
    s = s.replace("@INOVESA_VERSION_MAJOR@", "1").replace("@INOVESA_VERSION_MINOR@", "2") \
         .replace("@INOVESA_VERSION_FIX@", "-1")
    with open(os.path.join(d, "InovesaConfig.hpp"), "w") as f:
        f.write(s)
    return "-I" + d


def _compile(src, obj, flags):
    cmd = ["g++"] + flags + REPO_DEFS + INCLUDES + [config_include(), "-c", src, "-o", obj + ".tmp"]
    p = subprocess.run(cmd, stdout=subprocess.PIPE, stderr=subprocess.STDOUT, text=True)
    if p.returncode != 0:
        return src, p.stdout
    os.replace(obj + ".tmp", obj)
    return src, None


def build_objects(flavour="san", include_main=False):
    """Compile /repo/src/**/*.cpp (working tree) into cached objects; returns object list."""
    flags = SAN_FLAGS if flavour == "san" else PLAIN_FLAGS
    hh = headers_hash()
    objdir = os.path.join(CACHE, "obj-" + flavour)
    os.makedirs(objdir, exist_ok=True)
    jobs = []
    objs = []
    main_obj = None
    for src in repo_sources():
        is_main = src.endswith("/main.cpp")
        if is_main and not include_main:
            continue
        with open(src, "rb") as f:
            key = sha(f.read() + hh.encode() + " ".join(flags + REPO_DEFS).encode())[:24]
        obj = os.path.join(objdir, os.path.basename(src)[:-4] + "-" + key + ".o")
        if is_main:
            main_obj = obj
        else:
            objs.append(obj)
        if not os.path.exists(obj):
            jobs.append((src, obj))
    if jobs:
        log("[build] compiling %d repo sources (%s)" % (len(jobs), flavour))
        with ThreadPoolExecutor(max_workers=16) as ex:
            for src, err in ex.map(lambda j: _compile(j[0], j[1], flags), jobs):
                if err:
                    raise BuildError("compile failed: %s\n%s" % (src, err[-4000:]))
    # prune stale objects
    keep = set(objs + ([main_obj] if main_obj else []))
    for f in os.listdir(objdir):
        p = os.path.join(objdir, f)
        if p not in keep and f.endswith(".o") and time.time() - os.path.getmtime(p) > 3600:
            try:
                os.remove(p)
            except OSError:
                pass
    return objs, main_obj


class BuildError(Exception):
    pass


def build_harness(name="ivharness", flavour="san"):
    """Link harness/<name>.cpp against the repo objects; returns path of the binary."""
    with Lock("harness-" + flavour):
        objs, _ = build_objects(flavour)
        flags = SAN_FLAGS if flavour == "san" else PLAIN_FLAGS
        src = os.path.join(VERIF, "harness", name + ".cpp")
        h = hashlib.sha256()
        for o in objs:
            h.update(o.encode())
        for f in sorted(os.listdir(os.path.join(VERIF, "harness"))):
            if f.endswith((".cpp", ".hpp")):
                with open(os.path.join(VERIF, "harness", f), "rb") as fh:
                    h.update(fh.read())
        h.update(" ".join(flags).encode())
        exe = os.path.join(CACHE, "%s-%s-%s" % (name, flavour, h.hexdigest()[:16]))
        if not os.path.exists(exe):
            log("[build] linking", os.path.basename(exe))
            cmd = ["g++"] + flags + REPO_DEFS + INCLUDES + [config_include(), src] + objs + \
                  ["-o", exe + ".tmp"] + LIBS
            p = subprocess.run(cmd, stdout=subprocess.PIPE, stderr=subprocess.STDOUT, text=True)
            if p.returncode != 0:
                raise BuildError("harness link failed:\n" + p.stdout[-4000:])
            os.replace(exe + ".tmp", exe)
            for f in os.listdir(CACHE):
                if f.startswith("%s-%s-" % (name, flavour)) and os.path.join(CACHE, f) != exe \
                        and not f.endswith(".tmp"):
                    try:
                        os.remove(os.path.join(CACHE, f))
                    except OSError:
                        pass
        return exe


def build_inovesa(flavour="plain"):
    """The real program (main.cpp with hooks on) from the working tree."""
    with Lock("harness-" + flavour):
        objs, main_obj = build_objects(flavour, include_main=True)
        flags = SAN_FLAGS if flavour == "san" else PLAIN_FLAGS
        h = hashlib.sha256()
        for o in objs + [main_obj]:
            h.update(o.encode())
        exe = os.path.join(CACHE, "inovesa-verif-%s-%s" % (flavour, h.hexdigest()[:16]))
        if not os.path.exists(exe):
            log("[build] linking", os.path.basename(exe))
            cmd = ["g++"] + flags + [main_obj] + objs + ["-o", exe + ".tmp"] + LIBS
            p = subprocess.run(cmd, stdout=subprocess.PIPE, stderr=subprocess.STDOUT, text=True)
            if p.returncode != 0:
                raise BuildError("inovesa link failed:\n" + p.stdout[-4000:])
            os.replace(exe + ".tmp", exe)
            for f in os.listdir(CACHE):
                if f.startswith("inovesa-verif-%s-" % flavour) and os.path.join(CACHE, f) != exe:
                    try:
                        os.remove(os.path.join(CACHE, f))
                    except OSError:
                        pass
        return exe


def build_h5dump():
    with Lock("h5dump"):
        src = os.path.join(VERIF, "harness", "h5dump.cpp")
        with open(src, "rb") as f:
            key = sha(f.read())[:16]
        exe = os.path.join(CACHE, "h5dump-" + key)
        if not os.path.exists(exe):
            cmd = ["g++", "-O1", "-std=c++14", "-I/usr/include/hdf5/serial", src, "-o", exe + ".tmp",
                   "-L/usr/lib/x86_64-linux-gnu/hdf5/serial", "-lhdf5"]
            p = subprocess.run(cmd, stdout=subprocess.PIPE, stderr=subprocess.STDOUT, text=True)
            if p.returncode != 0:
                raise BuildError("h5dump build failed:\n" + p.stdout[-3000:])
            os.replace(exe + ".tmp", exe)
        return exe


def build_h5make():
    """harness/h5make: writes start-distribution files with unusual but legal HDF5 contents"""
    with Lock("h5dump"):
        src = os.path.join(VERIF, "harness", "h5make.cpp")
        with open(src, "rb") as f:
            key = sha(f.read())[:16]
        exe = os.path.join(CACHE, "h5make-" + key)
        if not os.path.exists(exe):
            cmd = ["g++", "-O1", "-std=c++14", "-I/usr/include/hdf5/serial", src, "-o", exe + ".tmp",
                   "-L/usr/lib/x86_64-linux-gnu/hdf5/serial", "-lhdf5"]
            p = subprocess.run(cmd, stdout=subprocess.PIPE, stderr=subprocess.STDOUT, text=True)
            if p.returncode != 0:
                raise BuildError("h5make build failed:\n" + p.stdout[-3000:])
            os.replace(exe + ".tmp", exe)
        return exe


# ------------------------------------------------------------------ translator / lean

def run_translator():
    """Regenerate lean/InovesaModel/Gen/*.lean from /repo. Returns {fragment: error or None}."""
    sys.path.insert(0, os.path.join(VERIF, "translator"))
    import importlib
    import generate_all
    importlib.reload(generate_all)
    return generate_all.run(os.path.join(LEAN, "InovesaModel", "Gen"))


def lake_build(targets, timeout=3000):
    with Lock("lake"):
        p = subprocess.run(["lake", "build"] + targets, cwd=LEAN, stdout=subprocess.PIPE,
                           stderr=subprocess.STDOUT, text=True, timeout=timeout)
    return p.returncode == 0, p.stdout


def driver_path():
    return os.path.join(LEAN, ".lake", "build", "bin", "ivdriver")


def lean_strip_comments(s):
    """Remove /- -/ (nested) and -- comments."""
    out = []
    i = 0
    depth = 0
    n = len(s)
    while i < n:
        if s.startswith("/-", i):
            depth += 1
            i += 2
        elif depth and s.startswith("-/", i):
            depth -= 1
            i += 2
        elif depth:
            i += 1
        elif s.startswith("--", i):
            while i < n and s[i] != "\n":
                i += 1
        else:
            out.append(s[i])
            i += 1
    return "".join(out)


def forbidden_tokens():
    """Forbidden-token scan of every Lean file of the library (outside comments)."""
    hits = []
    for root, _, files in os.walk(LEAN):
        if ".lake" in root:
            continue
        for f in files:
            if f.endswith(".lean"):
                p = os.path.join(root, f)
                with open(p) as fh:
                    txt = lean_strip_comments(fh.read())
                for ln, line in enumerate(txt.split("\n"), 1):
                    if FORBIDDEN.search(line):
                        hits.append("%s:%d: %s" % (os.path.relpath(p, LEAN), ln, line.strip()[:120]))
    return hits


def theorems_of(module):
    """Names of theorems declared in a Props module, with their namespace."""
    p = os.path.join(LEAN, *module.split(".")) + ".lean"
    with open(p) as f:
        txt = lean_strip_comments(f.read())
    ns = []
    names = []
    for line in txt.split("\n"):
        m = re.match(r"\s*namespace\s+(\S+)", line)
        if m:
            ns.append(m.group(1))
            continue
        m = re.match(r"\s*end\s+(\S+)", line)
        if m and ns and ns[-1] == m.group(1):
            ns.pop()
            continue
        m = re.match(r"\s*(?:@\[[^\]]*\]\s*)?(?:private\s+|protected\s+)?theorem\s+(\S+)", line)
        if m:
            names.append(".".join(ns + [m.group(1)]))
    return names


def count_examples(module):
    p = os.path.join(LEAN, *module.split(".")) + ".lean"
    with open(p) as f:
        txt = lean_strip_comments(f.read())
    return len(re.findall(r"^\s*example\b", txt, re.M))


def axioms_audit(module, names):
    """#print axioms for every theorem; returns (ok, {name: [axioms]}, raw)."""
    os.makedirs(CACHE, exist_ok=True)
    tmp = os.path.join(CACHE, "audit_%s_%d.lean" % (module.split(".")[-1], os.getpid()))
    with open(tmp, "w") as f:
        f.write("import %s\n" % module)
        for n in names:
            f.write("#print axioms %s\n" % n)
    with Lock("lake"):
        p = subprocess.run(["lake", "env", "lean", tmp], cwd=LEAN, stdout=subprocess.PIPE,
                           stderr=subprocess.STDOUT, text=True)
    os.remove(tmp)
    res = {}
    raw = p.stdout
    # outputs: "'X' depends on axioms: [a, b]" or "'X' does not depend on any axioms"
    for m in re.finditer(r"'([^']+)' (?:depends on axioms: \[([^\]]*)\]|does not depend on any axioms)", raw):
        axs = [a.strip() for a in (m.group(2) or "").replace("\n", " ").split(",") if a.strip()]
        res[m.group(1)] = axs
    ok = p.returncode == 0 and all(n in res for n in names) and \
        all(set(a) <= ALLOWED_AXIOMS for a in res.values())
    return ok, res, raw


# ------------------------------------------------------------------ floats

def f2h(x):
    return "%08x" % struct.unpack("<I", struct.pack("<f", x))[0]


def h2f(h):
    return struct.unpack("<f", struct.pack("<I", int(h, 16)))[0]


def f32(x):
    return struct.unpack("<f", struct.pack("<f", x))[0]


class Rng:
    """All random choices of a check derive from VERIF_SEED through this."""

    def __init__(self, seed, stream=""):
        self.r = random.Random("%s/%s" % (seed, stream))

    def __getattr__(self, k):
        return getattr(self.r, k)


def seed():
    try:
        return int(os.environ.get("VERIF_SEED", "1"))
    except ValueError:
        return 1


# ------------------------------------------------------------------ reporting

def load_known():
    p = os.path.join(VERIF, "known_findings.json")
    if not os.path.exists(p):
        return {"findings": [], "fixed": []}
    with open(p) as f:
        return json.load(f)


class Check:
    """Book-keeping of one check run: obligations, correspondence, oracle, verdict."""

    def __init__(self, pid, tier):
        self.pid = pid
        self.tier = tier
        self.seed = seed()
        self.t0 = time.time()
        self.violations = []      # (what, replay_path, found_input)
        self.known_hits = []
        self.cov = {"obligations": 0, "discharged": 0, "checker_cmd": "", "trusted_base": [],
                    "samples": [], "evaluations": 0, "distinct_nontrivial": 0, "rule": ""}
        self.assumptions = []
        self.extra = {}
        self.known = load_known()
        os.makedirs(REPLAYS, exist_ok=True)

    def replay_path(self, tag):
        d = os.path.join(REPLAYS, self.pid)
        os.makedirs(d, exist_ok=True)
        return os.path.join(d, "%s_seed%d_%s.txt" % (tag, self.seed, self.tier))

    def known_match(self, key):
        for k in self.known.get("findings", []):
            if k.get("property") == self.pid and k.get("key") == key:
                return k
        return None

    def violation(self, what, replay_text, tag="violation", found_input=True, key=None):
        if key is not None:
            k = self.known_match(key)
            if k is not None:
                if key not in [h[0] for h in self.known_hits]:
                    self.known_hits.append((key, k.get("what", what)))
                return
        path = self.replay_path(tag)
        with open(path, "w") as f:
            f.write(replay_text)
        self.violations.append((what, path, found_input))

    def finish(self, level="proof"):
        wall = time.time() - self.t0
        for key, what in self.known_hits:
            print("KNOWN-FINDING: property=%s %s" % (self.pid, what))
        ev = {
            "property_id": self.pid, "tier": self.tier, "seed": self.seed, "level": level,
            "coverage": self.cov, "assumptions": self.assumptions, "wall_s": round(wall, 2),
            "violations": len(self.violations),
        }
        ev["coverage"].update(self.extra)
        os.makedirs(EVID, exist_ok=True)
        with open(os.path.join(EVID, self.pid + ".json"), "w") as f:
            json.dump(ev, f, indent=1, sort_keys=True)
        seen = set()
        for what, path, found in self.violations:
            if path in seen:
                continue
            seen.add(path)
            log("[%s] %s" % (self.pid, what))
            print("VIOLATION property=%s replay=%s%s" % (self.pid, path,
                                                         "" if found else " no-failing-input-found"))
        sys.stdout.flush()
        return 1 if self.violations else 0


def prove(chk, modules, min_examples=0):
    """Translator + lake build of the property's proof modules + audit.
    Returns (ok, details). Records obligations in chk.cov."""
    if isinstance(modules, str):
        modules = [modules]
    details = {}
    try:
        tr = run_translator()
    except Exception as e:  # translator crashed: fail closed
        tr = {"translator": repr(e)}
    details["translator"] = tr
    chk.cov["translator_fragments"] = {k: ("ok" if v is None else v) for k, v in tr.items()}
    ok_build, out = lake_build(list(modules) + ["ivdriver"])
    details["build_ok"] = ok_build
    details["build_tail"] = out[-3000:]
    names = []
    per_mod = {}
    for m in modules:
        try:
            per_mod[m] = theorems_of(m)
        except OSError:
            per_mod[m] = []
        names += per_mod[m]
    chk.cov["obligations"] = len(names)
    chk.cov["checker_cmd"] = ("python3-vt translator/generate_all.py && cd lean && lake build %s && "
                              "lake env lean <file with `#print axioms` for each of the %d theorems>"
                              % (" ".join(modules), len(names)))
    chk.cov["theorems"] = names
    if not ok_build:
        chk.cov["discharged"] = 0
        details["broken"] = first_error(out)
        # which theorems still check?  (modules that built)
        return False, details
    discharged = 0
    all_axs = {}
    for m in modules:
        ok_ax, axs, raw = axioms_audit(m, per_mod[m])
        all_axs.update(axs)
        discharged += sum(1 for n in per_mod[m] if n in axs and set(axs[n]) <= ALLOWED_AXIOMS)
        if not ok_ax:
            details["broken"] = "axiom audit failed for %s: %s" % (m, raw[-1500:])
    details["axioms"] = all_axs
    chk.cov["discharged"] = discharged
    chk.cov["axioms_used"] = sorted({a for v in all_axs.values() for a in v})
    if "broken" in details:
        return False, details
    forb = forbidden_tokens()
    details["forbidden"] = forb
    nex = sum(count_examples(m) for m in modules)
    chk.cov["nonvacuity_examples"] = nex
    if forb:
        details["broken"] = "forbidden tokens: " + "; ".join(forb[:5])
        return False, details
    if nex < min_examples:
        details["broken"] = "non-vacuity examples missing (%d < %d)" % (nex, min_examples)
        return False, details
    if chk.tier == "thorough":
        res = {}
        for m in modules:
            with Lock("lake"):
                p = subprocess.run(["lake", "env", "leanchecker", m], cwd=LEAN,
                                   stdout=subprocess.PIPE, stderr=subprocess.STDOUT, text=True)
            res[m] = "ok" if p.returncode == 0 else p.stdout[-500:]
            if p.returncode != 0:
                details["broken"] = "leanchecker %s: %s" % (m, p.stdout[-1500:])
        chk.cov["leanchecker"] = res
        if "broken" in details:
            return False, details
    return True, details


def first_error(out):
    m = re.search(r"(error:.*?)(?:\n(?:warning|info|error|✖|✔|ℹ)|\Z)", out, re.S)
    lines = [l for l in out.split("\n") if "error" in l]
    return (m.group(1)[:1500] if m else "\n".join(lines[:10])) or out[-1500:]


TRUSTED_BASE = [
    "Lean 4.33 kernel (lake build; leanchecker re-check in the thorough tier)",
    "axioms allowed: propext, Classical.choice, Quot.sound (no native_decide, bv_decide, sorry, own axioms)",
    "translator/*.py (clang-14 typed AST -> Lean terms), fail-closed subset, self-tested bitwise against the C++ by the correspondence check",
    "correspondence harness (harness/ivharness.cpp built from /repo working tree with ASan/UBSan/_GLIBCXX_ASSERTIONS) and comparer",
    "IEEE-754 binary32 rounding is modelled, not verified: theorems are about the real-arithmetic semantics of the code",
]
