"""Running the real program (inovesa-verif: main.cpp of /repo's working tree, hooks on)."""
import os
import shutil
import subprocess
import sys
import tempfile

sys.path.insert(0, os.path.dirname(os.path.abspath(__file__)))
import lib  # noqa
from lib import h2f  # noqa


class Run:
    def __init__(self, rc, out, err, files, trace):
        self.rc, self.out, self.err, self.files, self.trace = rc, out, err, files, trace


def scratch():
    d = os.path.join(lib.CACHE, "runs")
    os.makedirs(d, exist_ok=True)
    return tempfile.mkdtemp(prefix="r%d_" % os.getpid(), dir=d)


def run_inovesa(exe, args, cwd, sigint_at=None, sigint_at2=None, trace=False, timeout=300, extra_env=None):
    env = dict(os.environ)
    env["XDG_DATA_HOME"] = os.path.join(lib.CACHE, "xdg")     # FFT wisdom created once, reused
    os.makedirs(env["XDG_DATA_HOME"], exist_ok=True)
    env["ASAN_OPTIONS"] = "detect_leaks=0"
    env["UBSAN_OPTIONS"] = "print_stacktrace=1"
    for k in ("INOVESA_VERIF_SIGINT_AT", "INOVESA_VERIF_SIGINT_AT2", "INOVESA_VERIF_TRACE"):
        env.pop(k, None)
    if sigint_at is not None:
        env["INOVESA_VERIF_SIGINT_AT"] = str(sigint_at)
    if sigint_at2 is not None:
        env["INOVESA_VERIF_SIGINT_AT2"] = str(sigint_at2)
    tpath = None
    if trace:
        tpath = os.path.join(cwd, "trace.txt")
        env["INOVESA_VERIF_TRACE"] = tpath
    if extra_env:
        env.update(extra_env)
    p = subprocess.run([exe] + args, cwd=cwd, stdout=subprocess.PIPE, stderr=subprocess.PIPE, text=True,
                       env=env, timeout=timeout)
    tr = []
    if tpath and os.path.exists(tpath):
        with open(tpath) as f:
            tr = [l.split(None, 1)[1].strip() for l in f if l.strip()]
    return Run(p.returncode, p.stdout, p.stderr, cwd, tr)


def dump(h5dump, path):
    """{'dsets': {name: (cls, size, dims, [tokens])}, 'attrs': {obj@name: [tokens]}, 'groups': [...]}"""
    p = subprocess.run([h5dump, path], stdout=subprocess.PIPE, stderr=subprocess.PIPE, text=True)
    d = {"dsets": {}, "attrs": {}, "groups": [], "ok": p.returncode == 0}
    for l in p.stdout.split("\n"):
        t = l.split()
        if not t:
            continue
        if t[0] == "dset":
            i = t.index(":")
            dims = [int(x) for x in t[5:i]]
            d["dsets"][t[1]] = (int(t[2]), int(t[3]), dims, t[i + 1:])
        elif t[0] == "attr":
            i = t.index(":")
            d["attrs"][t[1]] = (int(t[2]), int(t[3]), t[i + 1:])
        elif t[0] == "group":
            d["groups"].append(t[1])
        elif t[0] == "error":
            d["ok"] = False
    return d


def avals(at):
    """numeric values of an attribute (cls, size, tokens)"""
    cls, size, toks = at
    return fvals((cls, size, [len(toks)], toks))


def fvals(ds):
    cls, size, dims, toks = ds
    if cls == 1 and size == 4:
        return [h2f(x) for x in toks]
    if cls == 1 and size == 8:
        import struct
        return [struct.unpack("<d", struct.pack("<Q", int(x, 16)))[0] for x in toks]
    return [int(x) for x in toks]


BASE_ARGS = ["--config", "/dev/null", "--cldev", "0"]
