#!/bin/sh
# Offline set-up after a fresh restore: regenerate the model from /repo, build the Lean
# library (proofs) and the model driver, build the correspondence harness.
set -e
cd "$(dirname "$0")"
python3-vt translator/generate_all.py
(cd lean && lake build InovesaModel ivdriver)
python3-vt -c "import sys; sys.path.insert(0,'check'); import lib; lib.build_harness(); lib.build_h5dump(); lib.build_h5make()"
